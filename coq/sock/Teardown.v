(* Teardown.v - the connection discipline of AirTouchSocket when closing a connection takes time.

   Sock.v treats a disconnect as one step.  In the code it is not: _disconnect() closes the writer, then waits in
   wait_closed() - for as long as the peer needs - and only then clears is_connected / reader / writer, notifies, and
   (in reset_connection) schedules _connect().  While it waits, timers of the client can fire; in particular a 2 s retry
   that an earlier _connect() left armed (a _connect() whose backlog flush failed arms one when it resumes, because the
   connection it made is already gone).  This model has exactly the state that decides what such a timer may do:

     t_conn   is_connected            t_cing  _is_connecting (an attempt is in flight)
     t_tear   a _disconnect() is parked in wait_closed()      t_owe  ... inside the flush of a _connect() that will arm a retry
     t_live   transports opened by the client and not yet closed by it       t_retry  armed retry timers
     t_dials  connection attempts made so far

   pyairtouch/comms/socket.py (pinned): _connect 303-331, _disconnect 333-347, reset_connection 349-356. *)
From Coq Require Import List Bool Arith Lia.
Import ListNotations.

Record tstate := mkT { t_open : bool; t_conn : bool; t_cing : bool; t_tear : bool; t_owe : bool;
                       t_live : nat; t_retry : nat; t_dials : nat }.

Inductive tev :=
| TOpen                 (* open_socket() *)
| TDialOk | TDialFail   (* the attempt in flight succeeds / fails (any OSError) *)
| TLost (owe : bool)    (* the link is lost or reset while connected: the client closes its transport and waits *)
| TTearDone             (* wait_closed() returned *)
| TRetryFire.           (* an armed retry timer fires *)

Definition tinit : tstate := mkT false false false false false 0 0 0.

(* _connect(): ignored while connected or connecting (lines 304-306) *)
Definition attempt (s : tstate) : tstate :=
  if t_conn s || t_cing s then s
  else mkT (t_open s) (t_conn s) true (t_tear s) (t_owe s) (t_live s) (t_retry s) (S (t_dials s)).

Definition tstep (s : tstate) (e : tev) : tstate :=
  match e with
  | TOpen => if t_open s then s
             else attempt (mkT true (t_conn s) (t_cing s) (t_tear s) (t_owe s) (t_live s) (t_retry s) (t_dials s))
  | TDialOk => if t_cing s
               then mkT (t_open s) true false (t_tear s) (t_owe s) (S (t_live s)) (t_retry s) (t_dials s)
               else s
  | TDialFail => if t_cing s
                 then mkT (t_open s) (t_conn s) false (t_tear s) (t_owe s) (t_live s) (S (t_retry s)) (t_dials s)
                 else s
  | TLost owe => if t_conn s && negb (t_tear s)
                 then mkT (t_open s) true (t_cing s) true owe (pred (t_live s)) (t_retry s) (t_dials s)
                 else s
  | TTearDone => if t_tear s
                 then let s1 := attempt (mkT (t_open s) false (t_cing s) false false (t_live s) (t_retry s) (t_dials s)) in
                      if t_owe s
                      then mkT (t_open s1) (t_conn s1) (t_cing s1) (t_tear s1) (t_owe s1) (t_live s1) (S (t_retry s1)) (t_dials s1)
                      else s1
                 else s
  | TRetryFire => match t_retry s with
                  | O => s
                  | S r => attempt (mkT (t_open s) (t_conn s) (t_cing s) (t_tear s) (t_owe s) (t_live s) r (t_dials s))
                  end
  end.

Definition trun (evs : list tev) : tstate := fold_left tstep evs tinit.

(* the variant in which is_connected is cleared BEFORE the wait (and the reader/writer after it): what the resumed
   _disconnect() then forgets is a connection made meanwhile, which stays open *)
Definition tstep_early (s : tstate) (e : tev) : tstate :=
  match e with
  | TLost owe => if t_conn s && negb (t_tear s)
                 then mkT (t_open s) false (t_cing s) true owe (pred (t_live s)) (t_retry s) (t_dials s)
                 else s
  | TTearDone => if t_tear s
                 then let s1 := attempt (mkT (t_open s) false (t_cing s) false false (t_live s) (t_retry s) (t_dials s)) in
                      if t_owe s
                      then mkT (t_open s1) (t_conn s1) (t_cing s1) (t_tear s1) (t_owe s1) (t_live s1) (S (t_retry s1)) (t_dials s1)
                      else s1
                 else s
  | _ => tstep s e
  end.

(* exchange format: events 1 open | 2 dial ok | 3 dial fail | 4 lost | 5 lost inside a flush | 6 tear done | 7 retry fires;
   out: per event  conn cing tear live retry dials *)
Definition dec_tev (n : nat) : option tev :=
  match n with
  | 1 => Some TOpen | 2 => Some TDialOk | 3 => Some TDialFail | 4 => Some (TLost false) | 5 => Some (TLost true)
  | 6 => Some TTearDone | 7 => Some TRetryFire | _ => None
  end.

(* ---- what an observer of the network sees, and an acceptor for it ---------------------------------------------
   ODial: the client starts a connection attempt; OOpen / ORefused: it succeeds / fails; OClose: the client closes (or
   learns of the loss of) the connection it holds and starts tearing it down.  The acceptor keeps the part of the state
   that the observables determine and says whether the next observable is one the model can produce. *)
Inductive obs := ODial | OOpen | ORefused | OClose.

Record astate := mkA { a_conn : bool; a_cing : bool; a_tear : bool; a_live : nat }.

Definition ainit : astate := mkA false false false 0.

Definition astep (a : astate) (o : obs) : option astate :=
  match o with
  | ODial => if negb (a_cing a) && (negb (a_conn a) || a_tear a)
             then Some (mkA false true false (a_live a)) else None
  | OOpen => if a_cing a then Some (mkA true false (a_tear a) (S (a_live a))) else None
  | ORefused => if a_cing a then Some (mkA (a_conn a) false (a_tear a) (a_live a)) else None
  | OClose => if a_conn a && negb (a_tear a) then Some (mkA true (a_cing a) true (pred (a_live a))) else None
  end.

Fixpoint arun (a : astate) (os : list obs) : option astate :=
  match os with
  | [] => Some a
  | o :: r => match astep a o with Some a' => arun a' r | None => None end
  end.

(* the observables of one model step (from the state before it) *)
Definition dialled (s s' : tstate) : list obs := if Nat.eqb (t_dials s') (t_dials s) then [] else [ODial].

Definition project1 (s : tstate) (e : tev) : list obs :=
  let s' := tstep s e in
  match e with
  | TOpen | TRetryFire | TTearDone => dialled s s'
  | TDialOk => if t_cing s then [OOpen] else []
  | TDialFail => if t_cing s then [ORefused] else []
  | TLost _ => if t_conn s && negb (t_tear s) then [OClose] else []
  end.

Fixpoint project (s : tstate) (evs : list tev) : list obs :=
  match evs with
  | [] => []
  | e :: r => project1 s e ++ project (tstep s e) r
  end.

Definition abs (s : tstate) : astate := mkA (t_conn s) (t_cing s) (t_tear s) (t_live s).

(* exchange format for the acceptor: observables 1 dial | 2 open | 3 refused | 4 close;
   out: index of the first observable the model cannot produce (0-based) or -1, then the largest number of connections
   open at once along the accepted prefix *)
Definition dec_obs (n : nat) : option obs :=
  match n with 1 => Some ODial | 2 => Some OOpen | 3 => Some ORefused | 4 => Some OClose | _ => None end.

Fixpoint first_reject (a : astate) (os : list nat) (i : nat) (mx : nat) : nat * bool * nat :=
  match os with
  | [] => (i, true, mx)
  | n :: r => match dec_obs n with
              | None => (i, false, mx)
              | Some o => match astep a o with
                          | None => (i, false, mx)
                          | Some a' => first_reject a' r (S i) (Nat.max mx (a_live a'))
                          end
              end
  end.
