(* Sock.v — executable model of pyairtouch/comms/socket.py (AirTouchSocket).

   One external stimulus is processed until the client is quiescent again
   (big-step).  Time is Z in ticks of 2^-10 s.  The model contains no proofs. *)
From Coq Require Import ZArith List Bool.
Import ListNotations.
Open Scope Z_scope.

(* How the message behaves in the encoders:
   EncOk        — encodes;
   EncNoEncoder — no encoder registered: send() raises NotImplementedError before a
                  packet id is consumed;
   EncBadWrite  — accepted by send() but encode() raises at write time
                  (struct.error / ValueError): dropped, the connection is kept. *)
Inductive eclass := EncOk | EncNoEncoder | EncBadWrite.

Record entry := mkEntry {
  e_idx : nat;       (* ordinal of the accepted send that created it *)
  e_k : nat;         (* catalogue index of the message *)
  e_cls : eclass;
  e_pid : Z;
  e_retries : nat;
  e_expiry : Z }.

Record sstate := mkS {
  s_open : bool;
  s_link : option nat;       (* Some c: connected on connection c, read task running *)
  s_queue : list entry;
  s_dial : option Z;         (* a connect task awaiting open_connection: completion instant *)
  s_sleeps : list Z;         (* connect tasks sleeping out the retry delay: wake instants *)
  s_now : Z;
  s_pid : Z;                 (* next packet id, 0..255 *)
  s_ncid : nat;              (* connections opened so far *)
  s_nsend : nat;             (* sends accepted so far *)
  s_accept : bool;           (* environment: outcome of the next dial *)
  s_lat : Z;                 (* environment: latency of the next dial, >= 1 *)
  s_failw : bool }.          (* environment: the next transport write fails *)

Inductive ev :=
| EDial | ERefused | EOpen (c : nat) | EClose (c : nat) | EWFail (c : nat) (i : nat)
| EWrote (c : nat) (i : nat) (k : nat) (pid : Z) (t : Z)   (* i, t: ghost (ordinal, instant) *)
| EAccept (i : nat) (k : nat) (pid : Z) (retries : nat) (expiry : Z)   (* ghost: send accepted *)
| ELost (c : nat)                                            (* ghost: peer reset killed c *)
| ENotify (b : bool) | EDeliver (j : nat)
| ESendOk | ESendErr (code : Z)      (* 1 NotImplemented, 2 NotOpen, 3 QueueOverflow *)
| ETime (t : Z).

Inductive op :=
| OOpen | OClose
| OSend (k : nat) (cls : eclass) (retries : nat) (life : Z)
| OAdv (dt : Z)
| ONet (accept : bool) (lat : Z)
| OPeerEof | OPeerRst
| OPeerFrame (j : nat)
| OPeerBad           (* garbage header / bad CRC / undecodable: rejected by the reader *)
| OFailNextWrite
| OReset             (* reset_connection() while connected (what the heartbeat does) *)
| ONop.

Definition retry_delay : Z := 2048.   (* 2 s *)
Definition capacity : nat := 10.

Definition init (pid0 : Z) : sstate :=
  mkS false None [] None [] 0 pid0 0 0 true 1 false.

Definition set_queue s q := mkS (s_open s) (s_link s) q (s_dial s) (s_sleeps s) (s_now s) (s_pid s)
  (s_ncid s) (s_nsend s) (s_accept s) (s_lat s) (s_failw s).

Definition dec_retries (e : entry) : entry :=
  mkEntry (e_idx e) (e_k e) (e_cls e) (e_pid e) (pred (e_retries e)) (e_expiry e).

(* _drain_message_queue while connected on c.  Returns events, the queue left behind,
   and whether the link failed (write error). *)
Fixpoint drain_q (now : Z) (c : nat) (failw : bool) (q : list entry)
  : list ev * list entry * bool :=
  match q with
  | [] => ([], [], false)
  | e :: q' =>
    if e_expiry e <=? now then drain_q now c failw q'
    else match e_cls e with
         | EncOk =>
           if failw then
             ([EWFail c (e_idx e)],
              (match e_retries e with O => [] | S _ => [dec_retries e] end) ++ q',
              true)
           else let '(evs, rest, f) := drain_q now c false q' in
                (EWrote c (e_idx e) (e_k e) (e_pid e) now :: evs, rest, f)
         | _ => drain_q now c failw q'
         end
  end.

(* A fresh _connect task starts: it dials unless a dial is already in flight
   (single-flight), in which case it returns at once. *)
Definition start_dial (s : sstate) : option Z * list ev :=
  match s_dial s with
  | Some d => (Some d, [])
  | None => (Some (s_now s + s_lat s), [EDial])
  end.

(* After the link is gone: notify and schedule a connect task (reset_connection). *)
Definition go_down (s : sstate) (q : list entry) (fw : bool) (closing : list ev)
  : sstate * list ev :=
  let '(d, evd) := start_dial s in
  (mkS (s_open s) None q d (s_sleeps s) (s_now s) (s_pid s)
       (s_ncid s) (s_nsend s) (s_accept s) (s_lat s) fw,
   closing ++ ENotify false :: evd).

Definition drain (s : sstate) : sstate * list ev :=
  match s_link s with
  | None => (s, [])
  | Some c =>
    let '(evs, rest, failed) := drain_q (s_now s) c (s_failw s) (s_queue s) in
    if failed then
      let '(s', evs') := go_down s rest false [] in (s', evs ++ evs')
    else (set_queue s rest, evs)
  end.

Definition unexpired (now : Z) (e : entry) : bool := now <? e_expiry e.

Definition next_pid (p : Z) : Z := (p + 1) mod 256.

Definition send (s : sstate) (k : nat) (cls : eclass) (retries : nat) (life : Z)
  : sstate * list ev :=
  match cls with
  | EncNoEncoder => (s, [ESendErr 1])
  | _ =>
    let s1 := mkS (s_open s) (s_link s) (s_queue s) (s_dial s) (s_sleeps s) (s_now s)
                  (next_pid (s_pid s)) (s_ncid s) (s_nsend s) (s_accept s) (s_lat s)
                  (s_failw s) in
    if negb (s_open s) then (s1, [ESendErr 2])
    else
      let q := filter (unexpired (s_now s)) (s_queue s) in
      if (capacity <=? length q)%nat then (set_queue s1 q, [ESendErr 3])
      else
        let e := mkEntry (s_nsend s) k cls (s_pid s) retries (s_now s + life) in
        let s2 := mkS true (s_link s) (q ++ [e]) (s_dial s) (s_sleeps s) (s_now s)
                      (next_pid (s_pid s)) (s_ncid s) (S (s_nsend s)) (s_accept s)
                      (s_lat s) (s_failw s) in
        let '(s3, evs) := drain s2 in
        (s3, EAccept (s_nsend s) k (s_pid s) retries (s_now s + life) :: evs ++ [ESendOk])
  end.

Definition set_now s t := mkS (s_open s) (s_link s) (s_queue s) (s_dial s) (s_sleeps s) t (s_pid s)
  (s_ncid s) (s_nsend s) (s_accept s) (s_lat s) (s_failw s).

Definition set_dial s d sl := mkS (s_open s) (s_link s) (s_queue s) d sl (s_now s) (s_pid s)
  (s_ncid s) (s_nsend s) (s_accept s) (s_lat s) (s_failw s).

(* The dial completes at the current instant (_connect after open_connection). *)
Definition dial_done (s : sstate) : sstate * list ev :=
  if s_accept s then
    let c := s_ncid s in
    let s1 := mkS (s_open s) (Some c) (s_queue s) None (s_sleeps s) (s_now s) (s_pid s)
                  (S c) (s_nsend s) (s_accept s) (s_lat s) (s_failw s) in
    let '(s2, evs) := drain s1 in
    (* if the buffered messages could not be written the connection was reset inside
       the drain; _connect then finds itself disconnected and ALSO schedules a delayed
       connect task of its own *)
    match s_link s2 with
    | Some _ => (s2, EOpen c :: ENotify true :: evs)
    | None => (set_dial s2 (s_dial s2) (s_sleeps s2 ++ [s_now s + retry_delay]),
               EOpen c :: ENotify true :: evs)
    end
  else (set_dial s None (s_sleeps s ++ [s_now s + retry_delay]), [ERefused]).

(* earliest sleeping connect task *)
Fixpoint min_list (x : Z) (l : list Z) : Z :=
  match l with [] => x | y :: r => min_list (Z.min x y) r end.

Fixpoint remove_one (x : Z) (l : list Z) : list Z :=
  match l with
  | [] => []
  | y :: r => if x =? y then r else y :: remove_one x r
  end.

(* A sleeping connect task wakes: it dials unless the client is connected or a dial is
   in flight (then it ends silently). *)
Definition wake (s : sstate) (w : Z) : sstate * list ev :=
  let s1 := set_now (set_dial s (s_dial s) (remove_one w (s_sleeps s))) w in
  match s_link s1, s_dial s1 with
  | None, None => (set_dial s1 (Some (w + s_lat s)) (s_sleeps s1), [EDial; ETime w])
  | _, _ => (s1, [ETime w])
  end.

Definition fire_dial (s : sstate) (d : Z) : sstate * list ev :=
  let '(s2, evs) := dial_done (set_now (set_dial s None (s_sleeps s)) d) in (s2, evs ++ [ETime d]).

(* Advance to the next pending client timer if it lies within dt, and fire it
   (a dial completing at the same instant as a wake-up goes first). *)
Definition adv (s : sstate) (dt : Z) : sstate * list ev :=
  let horizon := s_now s + dt in
  let idle := (set_now s horizon, [ETime horizon]) in
  match s_dial s, s_sleeps s with
  | None, [] => idle
  | Some d, [] => if d <=? horizon then fire_dial s d else idle
  | None, x :: r => let w := min_list x r in if w <=? horizon then wake s w else idle
  | Some d, x :: r =>
    let w := min_list x r in
    if d <=? w then (if d <=? horizon then fire_dial s d else idle)
    else (if w <=? horizon then wake s w else idle)
  end.

Definition step (s : sstate) (o : op) : sstate * list ev :=
  match o with
  | OOpen =>
    if s_open s then (s, [])
    else (mkS true (s_link s) (s_queue s) (Some (s_now s + s_lat s)) (s_sleeps s) (s_now s) (s_pid s)
              (s_ncid s) (s_nsend s) (s_accept s) (s_lat s) (s_failw s), [EDial])
  | OClose =>
    if s_open s then
      (mkS false None [] None [] (s_now s) (s_pid s) (s_ncid s) (s_nsend s)
           (s_accept s) (s_lat s) (s_failw s),
       (match s_link s with Some c => [EClose c] | None => [] end) ++ [ENotify false])
    else (s, [])
  | OSend k cls r life => send s k cls r life
  | OAdv dt => adv s dt
  | ONet a l => (mkS (s_open s) (s_link s) (s_queue s) (s_dial s) (s_sleeps s) (s_now s) (s_pid s)
                     (s_ncid s) (s_nsend s) a l (s_failw s), [])
  | OPeerEof | OPeerBad | OReset =>
    match s_link s with
    | Some c => go_down s (s_queue s) (s_failw s) [EClose c]
    | None => (s, [])
    end
  | OPeerRst =>
    match s_link s with
    | Some c => go_down s (s_queue s) (s_failw s) [ELost c]
    | None => (s, [])
    end
  | OPeerFrame j =>
    match s_link s with
    | Some _ => (s, [EDeliver j])
    | None => (s, [])
    end
  | ONop => (s, [])
  | OFailNextWrite =>
    (mkS (s_open s) (s_link s) (s_queue s) (s_dial s) (s_sleeps s) (s_now s) (s_pid s)
         (s_ncid s) (s_nsend s) (s_accept s) (s_lat s) true, [])
  end.

(* Run a script; one event list per stimulus. *)
Fixpoint run (s : sstate) (ops : list op) : sstate * list (list ev) :=
  match ops with
  | [] => (s, [])
  | o :: ops' =>
    let '(s1, evs) := step s o in
    let '(s2, rest) := run s1 ops' in (s2, evs :: rest)
  end.

Definition trace (s : sstate) (ops : list op) : list ev := concat (snd (run s ops)).
