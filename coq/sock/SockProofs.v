(* SockProofs.v — invariants and trace theorems about the socket model (Sock.v). *)
From Coq Require Import ZArith List Bool Lia Sorted Arith.
From PV Require Import sock.Sock.
Import ListNotations.
Open Scope Z_scope.

(* ------------------------------------------------------------------ drain_q *)

Lemma drain_q_length now c fw q evs rest f :
  drain_q now c fw q = (evs, rest, f) -> (length rest <= length q)%nat.
Proof.
  revert fw evs rest f. induction q as [|e q IH]; intros fw evs rest f H; cbn in H.
  - inversion H; subst; cbn; lia.
  - destruct (e_expiry e <=? now) eqn:Hexp.
    + apply IH in H. cbn; lia.
    + destruct (e_cls e).
      * destruct fw.
        -- inversion H; subst. destruct (e_retries e); cbn; lia.
        -- destruct (drain_q now c false q) as [[evs' rest'] f'] eqn:Hd.
           inversion H; subst. apply IH in Hd. cbn; lia.
      * apply IH in H. cbn; lia.
      * apply IH in H. cbn; lia.
Qed.

(* without a failure the queue is emptied *)
Lemma drain_q_nofail_empty now c fw q evs rest :
  drain_q now c fw q = (evs, rest, false) -> rest = [].
Proof.
  revert fw evs rest. induction q as [|e q IH]; intros fw evs rest H; cbn in H.
  - now inversion H.
  - destruct (e_expiry e <=? now).
    + eauto.
    + destruct (e_cls e); eauto.
      destruct fw; [discriminate|].
      destruct (drain_q now c false q) as [[evs' rest'] f'] eqn:Hd.
      inversion H; subst. eauto.
Qed.

Definition sendable (now : Z) (e : entry) : bool :=
  (now <? e_expiry e) && match e_cls e with EncOk => true | _ => false end.

Definition wrote_of (c : nat) (now : Z) (e : entry) : ev :=
  EWrote c (e_idx e) (e_k e) (e_pid e) now.

(* functional characterisation: with no write fault armed, exactly the unexpired
   encodable entries are written, in queue order, once each, and nothing is left *)
Lemma drain_q_nofault now c q :
  drain_q now c false q = (map (wrote_of c now) (filter (sendable now) q), [], false).
Proof.
  induction q as [|e q IH]; cbn; [reflexivity|].
  unfold sendable at 1.
  destruct (e_expiry e <=? now) eqn:Hexp.
  - assert (now <? e_expiry e = false) as -> by lia. cbn. exact IH.
  - assert (now <? e_expiry e = true) as -> by lia. cbn.
    destruct (e_cls e); cbn; rewrite IH; reflexivity.
Qed.

(* with the fault armed: entries before the first sendable one are dropped, the first
   sendable one fails and is put back at the head with one retry less (or dropped) *)
Lemma drain_q_fault_head now c e q :
  sendable now e = true ->
  drain_q now c true (e :: q) =
  ([EWFail c (e_idx e)], (match e_retries e with O => [] | S _ => [dec_retries e] end) ++ q, true).
Proof.
  unfold sendable. intros H. apply andb_prop in H as [H1 H2]. cbn.
  assert (e_expiry e <=? now = false) as -> by lia.
  destruct (e_cls e); try discriminate. reflexivity.
Qed.

(* ------------------------------------------------------------- bookkeeping *)

Definition qidx (q : list entry) : list nat := map e_idx q.

Fixpoint widx (tr : list ev) : list nat :=
  match tr with
  | [] => []
  | EWrote _ i _ _ _ :: r => i :: widx r
  | _ :: r => widx r
  end.

Lemma widx_app a b : widx (a ++ b) = widx a ++ widx b.
Proof. induction a as [|x a IH]; cbn; [reflexivity|]. destruct x; cbn; rewrite ?IH; reflexivity. Qed.

(* attempts on ordinal i: successful or failed writes *)
Fixpoint att (i : nat) (tr : list ev) : nat :=
  match tr with
  | [] => 0
  | EWrote _ j _ _ _ :: r => (if Nat.eqb i j then 1 else 0) + att i r
  | EWFail _ j :: r => (if Nat.eqb i j then 1 else 0) + att i r
  | _ :: r => att i r
  end%nat.

Lemma att_app i a b : att i (a ++ b) = (att i a + att i b)%nat.
Proof. induction a as [|x a IH]; cbn; [reflexivity|]. destruct x; cbn; rewrite ?IH; lia. Qed.

(* what the queue may still spend on ordinal i *)
Fixpoint qbudget (i : nat) (q : list entry) : nat :=
  match q with
  | [] => 0
  | e :: r => (if Nat.eqb i (e_idx e) then S (e_retries e) else 0) + qbudget i r
  end%nat.

Lemma qbudget_app i a b : qbudget i (a ++ b) = (qbudget i a + qbudget i b)%nat.
Proof. induction a as [|x a IH]; cbn; [reflexivity|]. rewrite IH; lia. Qed.

Lemma qbudget_filter i f q : (qbudget i (filter f q) <= qbudget i q)%nat.
Proof. induction q as [|e q IH]; cbn; [lia|]. destruct (f e); cbn; lia. Qed.

Lemma drain_q_budget i now c fw q evs rest f :
  drain_q now c fw q = (evs, rest, f) ->
  (att i evs + qbudget i rest <= qbudget i q)%nat.
Proof.
  revert fw evs rest f. induction q as [|e q IH]; intros fw evs rest f H; cbn in H.
  - inversion H; subst; cbn; lia.
  - destruct (e_expiry e <=? now).
    + apply IH in H. cbn; lia.
    + destruct (e_cls e).
      * destruct fw.
        -- inversion H; subst. cbn. rewrite qbudget_app.
           destruct (e_retries e) eqn:Hr; cbn; rewrite ?Hr; destruct (Nat.eqb i (e_idx e)); cbn; lia.
        -- destruct (drain_q now c false q) as [[evs' rest'] f'] eqn:Hd.
           inversion H; subst. apply IH in Hd. cbn.
           destruct (Nat.eqb i (e_idx e)); cbn; lia.
      * apply IH in H. cbn; lia.
      * apply IH in H. cbn; lia.
Qed.

(* every write comes from a queue entry, at an instant before its expiry *)
Lemma drain_q_written now c fw q evs rest f c' i k pid t :
  drain_q now c fw q = (evs, rest, f) ->
  In (EWrote c' i k pid t) evs ->
  exists e, In e q /\ e_idx e = i /\ e_k e = k /\ e_pid e = pid /\ t = now /\ now < e_expiry e
            /\ e_cls e = EncOk /\ c' = c.
Proof.
  revert fw evs rest f. induction q as [|e q IH]; intros fw evs rest f H Hin; cbn in H.
  - inversion H; subst. destruct Hin.
  - destruct (e_expiry e <=? now) eqn:Hexp.
    + destruct (IH _ _ _ _ H Hin) as [e0 [? ?]]. exists e0. split; [now right|assumption].
    + destruct (e_cls e) eqn:Hcls.
      * destruct fw.
        -- inversion H; subst. destruct Hin as [Hin|[]]. discriminate.
        -- destruct (drain_q now c false q) as [[evs' rest'] f'] eqn:Hd.
           inversion H; subst. destruct Hin as [Hin|Hin].
           ++ inversion Hin; subst. exists e. repeat split; auto; try lia. now left.
           ++ destruct (IH _ _ _ _ Hd Hin) as [e0 [? ?]]. exists e0. split; [now right|assumption].
      * destruct (IH _ _ _ _ H Hin) as [e0 [? ?]]. exists e0. split; [now right|assumption].
      * destruct (IH _ _ _ _ H Hin) as [e0 [? ?]]. exists e0. split; [now right|assumption].
Qed.

(* what is left behind are entries of the queue, possibly with fewer retries *)
Definition same_msg (a b : entry) : Prop :=
  e_idx a = e_idx b /\ e_k a = e_k b /\ e_cls a = e_cls b /\ e_pid a = e_pid b /\
  e_expiry a = e_expiry b /\ (e_retries a <= e_retries b)%nat.

Lemma same_msg_refl a : same_msg a a.
Proof. unfold same_msg; repeat split; lia. Qed.

Lemma drain_q_rest now c fw q evs rest f :
  drain_q now c fw q = (evs, rest, f) ->
  forall r, In r rest -> exists e, In e q /\ same_msg r e.
Proof.
  revert fw evs rest f. induction q as [|e q IH]; intros fw evs rest f H r Hin; cbn in H.
  - inversion H; subst. destruct Hin.
  - destruct (e_expiry e <=? now).
    + destruct (IH _ _ _ _ H r Hin) as [e0 [? ?]]. exists e0; split; [now right|assumption].
    + destruct (e_cls e).
      * destruct fw.
        -- inversion H; subst. apply in_app_or in Hin as [Hin|Hin].
           ++ destruct (e_retries e) eqn:Hr; [destruct Hin|]. destruct Hin as [<-|[]].
              exists e; split; [now left|]. unfold same_msg, dec_retries; cbn. repeat split; lia.
           ++ exists r; split; [now right|apply same_msg_refl].
        -- destruct (drain_q now c false q) as [[evs' rest'] f'] eqn:Hd.
           inversion H; subst.
           destruct (IH _ _ _ _ Hd r Hin) as [e0 [? ?]]. exists e0; split; [now right|assumption].
      * destruct (IH _ _ _ _ H r Hin) as [e0 [? ?]]. exists e0; split; [now right|assumption].
      * destruct (IH _ _ _ _ H r Hin) as [e0 [? ?]]. exists e0; split; [now right|assumption].
Qed.

(* order: written ordinals followed by the ordinals left in the queue form a
   subsequence-preserving rearrangement: sortedness of the queue is inherited *)
Definition sorted (l : list nat) : Prop := StronglySorted lt l.

Lemma sorted_app_inv a b : sorted (a ++ b) -> sorted a /\ sorted b /\ (forall x y, In x a -> In y b -> (x < y)%nat).
Proof.
  induction a as [|x a IH]; cbn; intros H.
  - repeat split; [constructor|assumption|intros ? ? []].
  - inversion H as [|? ? Hs Hf]; subst. destruct (IH Hs) as [Ha [Hb Hab]].
    rewrite Forall_forall in Hf. repeat split; auto.
    + constructor; [assumption|]. rewrite Forall_forall. intros y Hy. apply Hf, in_or_app; now left.
    + intros x0 y [<-|Hx0] Hy; [apply Hf, in_or_app; now right|now apply Hab].
Qed.

Lemma sorted_app a b : sorted a -> sorted b -> (forall x y, In x a -> In y b -> (x < y)%nat) -> sorted (a ++ b).
Proof.
  induction a as [|x a IH]; cbn; intros Ha Hb Hab; [assumption|].
  inversion Ha as [|? ? Hs Hf]; subst. constructor.
  - apply IH; auto.
  - rewrite Forall_forall in *. intros y Hy. apply in_app_or in Hy as [Hy|Hy]; auto.
Qed.

Lemma sorted_cons_inv x l : sorted (x :: l) -> sorted l /\ (forall y, In y l -> (x < y)%nat).
Proof. intros H. inversion H as [|? ? Hs Hf]; subst. rewrite Forall_forall in Hf. auto. Qed.

Lemma drain_q_sorted now c fw q evs rest f :
  drain_q now c fw q = (evs, rest, f) ->
  sorted (qidx q) -> sorted (widx evs ++ qidx rest) /\
  (forall x, In x (widx evs ++ qidx rest) -> In x (qidx q)).
Proof.
  revert fw evs rest f. induction q as [|e q IH]; intros fw evs rest f H Hs; cbn in H.
  - inversion H; subst; cbn. split; [constructor|intros ? []].
  - cbn in Hs. apply sorted_cons_inv in Hs as [Hs Hlt].
    destruct (e_expiry e <=? now).
    + destruct (IH _ _ _ _ H Hs) as [A B]. split; [assumption|]. intros x Hx; right; auto.
    + destruct (e_cls e).
      * destruct fw.
        -- inversion H; subst. cbn. unfold qidx. rewrite map_app.
           destruct (e_retries e); cbn.
           ++ split; [assumption|]. intros x Hx; now right.
           ++ split; [constructor; [assumption|now rewrite Forall_forall]|]. intros x Hx; exact Hx.
        -- destruct (drain_q now c false q) as [[evs' rest'] f'] eqn:Hd.
           inversion H; subst. destruct (IH _ _ _ _ Hd Hs) as [A B]. cbn. split.
           ++ constructor; [assumption|]. rewrite Forall_forall. intros x Hx. apply Hlt, B, Hx.
           ++ intros x [<-|Hx]; [now left|right; auto].
      * destruct (IH _ _ _ _ H Hs) as [A B]. split; [assumption|]. intros x Hx; right; auto.
      * destruct (IH _ _ _ _ H Hs) as [A B]. split; [assumption|]. intros x Hx; right; auto.
Qed.

(* --------------------------------------------------- queue/trace invariant J *)

Definition relevant (e : ev) : bool :=
  match e with EWrote _ _ _ _ _ | EWFail _ _ | EAccept _ _ _ _ _ => true | _ => false end.
Definition quiet (evs : list ev) : bool := forallb (fun e => negb (relevant e)) evs.

Lemma quiet_widx evs : quiet evs = true -> widx evs = [].
Proof. induction evs as [|x l IH]; cbn; [reflexivity|]. destruct x; cbn; try discriminate; assumption. Qed.
Lemma quiet_att i evs : quiet evs = true -> att i evs = 0%nat.
Proof. induction evs as [|x l IH]; cbn; [reflexivity|]. destruct x; cbn; try discriminate; assumption. Qed.
Lemma quiet_not_in evs e : quiet evs = true -> relevant e = true -> ~ In e evs.
Proof.
  unfold quiet. rewrite forallb_forall. intros H Hr Hin. apply H in Hin. rewrite Hr in Hin. discriminate.
Qed.
Lemma quiet_app a b : quiet (a ++ b) = quiet a && quiet b.
Proof. unfold quiet. apply forallb_app. Qed.

Record J (tr : list ev) (q : list entry) (n : nat) : Prop := {
  j_sorted : sorted (widx tr ++ qidx q);
  j_lt : forall x, In x (widx tr ++ qidx q) -> (x < n)%nat;
  j_acc : forall e, In e q ->
          exists r, In (EAccept (e_idx e) (e_k e) (e_pid e) r (e_expiry e)) tr;
  j_wrote : forall c i k pid t, In (EWrote c i k pid t) tr ->
            exists r exp, In (EAccept i k pid r exp) tr /\ t < exp;
  j_att : forall i k pid r exp, In (EAccept i k pid r exp) tr ->
          (att i tr + qbudget i q <= S r)%nat;
  j_accidx : forall i k pid r exp, In (EAccept i k pid r exp) tr -> (i < n)%nat;
  j_fresh : forall i, (n <= i)%nat -> att i tr = 0%nat /\ qbudget i q = 0%nat }.

Lemma J_init n : J [] [] n.
Proof.
  constructor; cbn; try (intros; contradiction); try constructor; auto.
Qed.

Lemma J_quiet tr q n evs : J tr q n -> quiet evs = true -> J (tr ++ evs) q n.
Proof.
  intros [Hs Hl Ha Hw Ht Hi Hf] Hq. constructor.
  - rewrite widx_app, (quiet_widx _ Hq), app_nil_r. assumption.
  - rewrite widx_app, (quiet_widx _ Hq), app_nil_r. assumption.
  - intros e He. destruct (Ha e He) as [r Hr]. exists r. apply in_or_app; now left.
  - intros c i k pid t Hin. apply in_app_or in Hin as [Hin|Hin].
    + destruct (Hw _ _ _ _ _ Hin) as [r [ex [A B]]]. exists r, ex. split; [apply in_or_app; now left|assumption].
    + exfalso. eapply quiet_not_in; eauto. reflexivity.
  - intros i k pid r ex Hin. apply in_app_or in Hin as [Hin|Hin].
    + rewrite att_app, (quiet_att _ _ Hq). specialize (Ht _ _ _ _ _ Hin). lia.
    + exfalso. eapply quiet_not_in; eauto. reflexivity.
  - intros i k pid r ex Hin. apply in_app_or in Hin as [Hin|Hin]; [eauto|].
    exfalso. eapply quiet_not_in; eauto. reflexivity.
  - intros i Hi'. rewrite att_app, (quiet_att _ _ Hq). destruct (Hf i Hi'). split; lia.
Qed.

Lemma qidx_filter_in f q x : In x (qidx (filter f q)) -> In x (qidx q).
Proof.
  unfold qidx. rewrite !in_map_iff. intros [e [<- He]]. apply filter_In in He as [He _]. eauto.
Qed.

Lemma sorted_filter f q : sorted (qidx q) -> sorted (qidx (filter f q)).
Proof.
  induction q as [|e q IH]; cbn; intros H; [constructor|].
  apply sorted_cons_inv in H as [Hs Hlt]. destruct (f e); cbn; auto.
  constructor; [exact (IH Hs)|]. rewrite Forall_forall. intros y Hy. apply Hlt.
  apply (qidx_filter_in f). exact Hy.
Qed.

Lemma J_filter tr q n f : J tr q n -> J tr (filter f q) n.
Proof.
  intros [Hs Hl Ha Hw Ht Hi Hf]. constructor; auto.
  - apply sorted_app_inv in Hs as [A [B C]]. apply sorted_app; auto.
    + now apply sorted_filter.
    + intros x y Hx Hy. apply C; auto. now apply qidx_filter_in in Hy.
  - intros x Hx. apply Hl. apply in_app_or in Hx as [Hx|Hx]; apply in_or_app; [now left|right].
    now apply qidx_filter_in in Hx.
  - intros e He. apply filter_In in He as [He _]. auto.
  - intros i k pid r ex Hin. specialize (Ht _ _ _ _ _ Hin). pose proof (qbudget_filter i f q). lia.
  - intros i Hi'. destruct (Hf i Hi') as [A B]. split; auto. pose proof (qbudget_filter i f q). lia.
Qed.

Lemma J_nil tr q n : J tr q n -> J tr [] n.
Proof. intros H. apply (J_filter _ _ _ (fun _ => false)) in H. 
  replace (filter (fun _ => false) q) with (@nil entry) in H; [assumption|].
  clear. induction q; cbn; auto.
Qed.

Lemma drain_q_events now c fw q evs rest f e :
  drain_q now c fw q = (evs, rest, f) -> In e evs ->
  match e with EWrote _ _ _ _ _ | EWFail _ _ => True | _ => False end.
Proof.
  revert fw evs rest f. induction q as [|x q IH]; intros fw evs rest f H Hin; cbn in H.
  - inversion H; subst. destruct Hin.
  - destruct (e_expiry x <=? now); [exact (IH _ _ _ _ H Hin)|].
    destruct (e_cls x); [|exact (IH _ _ _ _ H Hin)|exact (IH _ _ _ _ H Hin)].
    destruct fw.
    + inversion H; subst. cbn in Hin. destruct Hin as [Hin|Hin]; [subst; exact I|destruct Hin].
    + destruct (drain_q now c false q) as [[evs' rest'] f'] eqn:Hd.
      inversion H; subst. cbn in Hin. destruct Hin as [Hin|Hin]; [subst; exact I|exact (IH _ _ _ _ Hd Hin)].
Qed.

Lemma J_drain tr q n now c fw evs rest f :
  J tr q n -> drain_q now c fw q = (evs, rest, f) -> J (tr ++ evs) rest n.
Proof.
  intros [Hs Hl Ha Hw Ht Hi Hf] Hd.
  pose proof (sorted_app_inv _ _ Hs) as [S1 [S2 S3]].
  destruct (drain_q_sorted _ _ _ _ _ _ _ Hd S2) as [D1 D2].
  assert (Hnoacc : forall i k pid r ex, ~ In (EAccept i k pid r ex) evs).
  { intros i k pid r ex Hin. apply (drain_q_events _ _ _ _ _ _ _ _ Hd) in Hin. exact Hin. }
  constructor.
  - rewrite widx_app, <- app_assoc. apply sorted_app; auto.
  - rewrite widx_app, <- app_assoc. intros x Hx. apply Hl.
    apply in_app_or in Hx as [Hx|Hx]; apply in_or_app; [now left|right; auto].
  - intros e He. destruct (drain_q_rest _ _ _ _ _ _ _ Hd e He) as [e0 [He0 [E1 [E2 [E3 [E4 [E5 E6]]]]]]].
    destruct (Ha e0 He0) as [r Hr]. exists r. rewrite E1, E2, E4, E5. apply in_or_app; now left.
  - intros c' i k pid t Hin. apply in_app_or in Hin as [Hin|Hin].
    + destruct (Hw _ _ _ _ _ Hin) as [r [ex [A B]]]. exists r, ex. split; [apply in_or_app; now left|assumption].
    + destruct (drain_q_written _ _ _ _ _ _ _ _ _ _ _ _ Hd Hin) as [e [He [E1 [E2 [E3 [E4 [E5 _]]]]]]].
      destruct (Ha e He) as [r Hr]. exists r, (e_expiry e). subst. split; [apply in_or_app; now left|assumption].
  - intros i k pid r ex Hin. apply in_app_or in Hin as [Hin|Hin]; [|exfalso; eapply Hnoacc; eauto].
    rewrite att_app. specialize (Ht _ _ _ _ _ Hin). pose proof (drain_q_budget i _ _ _ _ _ _ _ Hd). lia.
  - intros i k pid r ex Hin. apply in_app_or in Hin as [Hin|Hin]; [eauto|exfalso; eapply Hnoacc; eauto].
  - intros i Hi'. destruct (Hf i Hi') as [A B]. rewrite att_app.
    pose proof (drain_q_budget i _ _ _ _ _ _ _ Hd). split; lia.
Qed.

Lemma J_accept tr q n k cls pid r ex :
  J tr q n ->
  J (tr ++ [EAccept n k pid r ex]) (q ++ [mkEntry n k cls pid r ex]) (S n).
Proof.
  intros [Hs Hl Ha Hw Ht Hi Hf].
  assert (Hq : quiet [EAccept n k pid r ex] = false) by reflexivity.
  assert (Hwx : widx (tr ++ [EAccept n k pid r ex]) = widx tr) by (rewrite widx_app; cbn; apply app_nil_r).
  assert (Hax : forall i, att i (tr ++ [EAccept n k pid r ex]) = att i tr) by (intros; rewrite att_app; cbn; lia).
  constructor.
  - rewrite Hwx. unfold qidx. rewrite map_app, app_assoc. cbn. apply sorted_app; auto.
    + repeat constructor.
    + intros x y Hx [<-|[]]. now apply Hl.
  - rewrite Hwx. unfold qidx. rewrite map_app, app_assoc. cbn. intros x Hx.
    apply in_app_or in Hx as [Hx|[<-|[]]]; [apply Hl in Hx|]; lia.
  - intros e He. apply in_app_or in He as [He|[<-|[]]].
    + destruct (Ha e He) as [r0 Hr0]. exists r0. apply in_or_app; now left.
    + exists r. cbn. apply in_or_app; right; now left.
  - intros c i k0 pid0 t Hin. apply in_app_or in Hin as [Hin|[Hin|[]]]; [|discriminate].
    destruct (Hw _ _ _ _ _ Hin) as [r0 [ex0 [A B]]]. exists r0, ex0. split; [apply in_or_app; now left|assumption].
  - intros i k0 pid0 r0 ex0 Hin. rewrite Hax, qbudget_app. cbn.
    apply in_app_or in Hin as [Hin|[Hin|[]]].
    + specialize (Ht _ _ _ _ _ Hin). specialize (Hi _ _ _ _ _ Hin).
      destruct (Nat.eqb_spec i n); [lia|]. lia.
    + inversion Hin; subst. destruct (Hf i (le_n _)) as [A B]. rewrite Nat.eqb_refl. lia.
  - intros i k0 pid0 r0 ex0 Hin. apply in_app_or in Hin as [Hin|[Hin|[]]].
    + specialize (Hi _ _ _ _ _ Hin). lia.
    + inversion Hin; subst. lia.
  - intros i Hi'. rewrite Hax, qbudget_app. cbn. destruct (Hf i ltac:(lia)) as [A B].
    destruct (Nat.eqb_spec i n); [lia|]. split; lia.
Qed.

(* ------------------------------------------------------------ step level *)

Definition Jst (tr : list ev) (s : sstate) : Prop := J tr (s_queue s) (s_nsend s).

Lemma start_dial_quiet s d evd : start_dial s = (d, evd) -> quiet evd = true.
Proof. unfold start_dial. destruct (s_dial s); intros H; inversion H; subst; reflexivity. Qed.

Lemma go_down_J tr s q fw cl s' evs :
  J tr q (s_nsend s) -> quiet cl = true -> go_down s q fw cl = (s', evs) -> Jst (tr ++ evs) s'.
Proof.
  unfold go_down, Jst. intros HJ Hq H. destruct (start_dial s) as [d evd] eqn:Hsd.
  inversion H; subst; cbn. apply J_quiet; [assumption|].
  rewrite quiet_app, Hq. cbn. exact (start_dial_quiet _ _ _ Hsd).
Qed.

Lemma drain_J tr s s' evs : Jst tr s -> drain s = (s', evs) -> Jst (tr ++ evs) s'.
Proof.
  unfold drain. intros HJ H. destruct (s_link s) as [c|].
  - destruct (drain_q (s_now s) c (s_failw s) (s_queue s)) as [[evd rest] f] eqn:Hd.
    pose proof (J_drain _ _ _ _ _ _ _ _ _ HJ Hd) as HJ'.
    destruct f.
    + destruct (go_down s rest false []) as [s1 ev1] eqn:Hg. inversion H; subst.
      rewrite app_assoc. exact (go_down_J _ _ _ _ [] _ _ HJ' eq_refl Hg).
    + inversion H; subst; cbn. exact HJ'.
  - inversion H; subst. rewrite app_nil_r. assumption.
Qed.

Lemma dial_done_J tr s s' evs : Jst tr s -> dial_done s = (s', evs) -> Jst (tr ++ evs) s'.
Proof.
  unfold dial_done. intros HJ H. destruct (s_accept s).
  - match type of H with (let '(_, _) := drain ?s1 in _) = _ =>
      destruct (drain s1) as [s2 evd] eqn:Hd end.
    assert (HJ2 : Jst (tr ++ EOpen (s_ncid s) :: ENotify true :: evd) s2).
    { replace (tr ++ EOpen (s_ncid s) :: ENotify true :: evd)
        with ((tr ++ [EOpen (s_ncid s); ENotify true]) ++ evd) by (rewrite <- app_assoc; reflexivity).
      eapply drain_J; [|exact Hd]. unfold Jst; cbn. apply J_quiet; [exact HJ|reflexivity]. }
    destruct (s_link s2); inversion H; subst; exact HJ2.
  - inversion H; subst. apply J_quiet; [exact HJ|reflexivity].
Qed.

Lemma fire_dial_J tr s d s' evs : Jst tr s -> fire_dial s d = (s', evs) -> Jst (tr ++ evs) s'.
Proof.
  unfold fire_dial. intros HJ H.
  destruct (dial_done _) as [s2 evd] eqn:Hdd. inversion H; subst.
  rewrite app_assoc. apply J_quiet; [|reflexivity].
  eapply dial_done_J; [|exact Hdd]. exact HJ.
Qed.

Lemma wake_J tr s w s' evs : Jst tr s -> wake s w = (s', evs) -> Jst (tr ++ evs) s'.
Proof.
  unfold wake. intros HJ H. cbn in H.
  destruct (s_link s), (s_dial s); inversion H; subst; unfold Jst in *; cbn.
  all: apply J_quiet; [assumption|reflexivity].
Qed.

(* the three things an advance can do *)
Lemma min_list_in x l : In (min_list x l) (x :: l).
Proof.
  revert x. induction l as [|y l IH]; intros x; cbn; [now left|].
  destruct (IH (Z.min x y)) as [H|H].
  - destruct (Z.min_spec x y) as [[_ E]|[_ E]]; rewrite E in *; [left|right; left]; exact H.
  - right; now right.
Qed.

Lemma adv_cases s dt :
  adv s dt = (set_now s (s_now s + dt), [ETime (s_now s + dt)]) \/
  (exists d, s_dial s = Some d /\ d <= s_now s + dt /\ adv s dt = fire_dial s d) \/
  (exists w, In w (s_sleeps s) /\ w <= s_now s + dt /\ adv s dt = wake s w).
Proof.
  unfold adv. destruct (s_dial s) as [d|], (s_sleeps s) as [|x r] eqn:Hs.
  - destruct (d <=? s_now s + dt) eqn:E; [right; left; exists d; repeat split; auto; lia|now left].
  - destruct (d <=? min_list x r).
    + destruct (d <=? s_now s + dt) eqn:E; [right; left; exists d; repeat split; auto; lia|now left].
    + destruct (min_list x r <=? s_now s + dt) eqn:E; [|now left].
      right; right. exists (min_list x r). repeat split; [apply min_list_in|lia].
  - now left.
  - destruct (min_list x r <=? s_now s + dt) eqn:E; [|now left].
    right; right. exists (min_list x r). repeat split; [apply min_list_in|lia].
Qed.

Lemma step_J tr s o s' evs : Jst tr s -> step s o = (s', evs) -> Jst (tr ++ evs) s'.
Proof.
  intros HJ H. destruct o; cbn in H.
  - (* open *) destruct (s_open s); inversion H; subst; [rewrite app_nil_r; assumption|].
    apply J_quiet; [exact HJ|reflexivity].
  - (* close *) destruct (s_open s); inversion H; subst; [|rewrite app_nil_r; assumption].
    unfold Jst; cbn. apply J_quiet; [apply (J_nil _ _ _ HJ)|].
    destruct (s_link s); reflexivity.
  - (* send *) unfold send in H.
    assert (Hacc : forall cls0 s3 evd,
      drain (mkS true (s_link s)
               (filter (unexpired (s_now s)) (s_queue s) ++
                [mkEntry (s_nsend s) k cls0 (s_pid s) retries (s_now s + life)])
               (s_dial s) (s_sleeps s) (s_now s) (next_pid (s_pid s)) (s_ncid s) (S (s_nsend s))
               (s_accept s) (s_lat s) (s_failw s)) = (s3, evd) ->
      Jst (tr ++ EAccept (s_nsend s) k (s_pid s) retries (s_now s + life) :: evd ++ [ESendOk]) s3).
    { intros cls0 s3 evd Hd.
      replace (tr ++ EAccept (s_nsend s) k (s_pid s) retries (s_now s + life) :: evd ++ [ESendOk])
        with (((tr ++ [EAccept (s_nsend s) k (s_pid s) retries (s_now s + life)]) ++ evd) ++ [ESendOk])
        by (rewrite <- !app_assoc; reflexivity).
      apply J_quiet; [|reflexivity]. eapply drain_J; [|exact Hd].
      unfold Jst; cbn. apply J_accept. apply J_filter, HJ. }
    destruct cls; [| inversion H; subst; apply J_quiet; [exact HJ|reflexivity] |];
    (destruct (negb (s_open s));
     [inversion H; subst; apply J_quiet; [exact HJ|reflexivity]|];
     destruct (capacity <=? _)%nat;
     [inversion H; subst; unfold Jst; cbn; apply J_quiet; [apply J_filter, HJ|reflexivity]|];
     match type of H with (let '(_, _) := drain ?s2 in _) = _ => destruct (drain s2) as [s3 evd] eqn:Hd end;
     inversion H; subst; eapply Hacc; exact Hd).
  - (* adv *) destruct (adv_cases s dt) as [E|[[d [_ [_ E]]]|[w [_ [_ E]]]]]; rewrite E in H.
    + inversion H; subst. apply J_quiet; [exact HJ|reflexivity].
    + eapply fire_dial_J; eauto.
    + eapply wake_J; eauto.
  - (* net *) inversion H; subst. rewrite app_nil_r. exact HJ.
  - (* eof *) destruct (s_link s); [|inversion H; subst; rewrite app_nil_r; exact HJ].
    eapply go_down_J; [exact HJ| |exact H]. reflexivity.
  - (* rst *) destruct (s_link s); [|inversion H; subst; rewrite app_nil_r; exact HJ].
    eapply go_down_J; [exact HJ| |exact H]. reflexivity.
  - (* frame *) destruct (s_link s); inversion H; subst; [|rewrite app_nil_r; exact HJ].
    apply J_quiet; [exact HJ|reflexivity].
  - (* bad *) destruct (s_link s); [|inversion H; subst; rewrite app_nil_r; exact HJ].
    eapply go_down_J; [exact HJ| |exact H]. reflexivity.
  - (* failw *) inversion H; subst; rewrite app_nil_r; exact HJ.
  - (* reset *) destruct (s_link s); [|inversion H; subst; rewrite app_nil_r; exact HJ].
    eapply go_down_J; [exact HJ| |exact H]. reflexivity.
  - (* nop *) inversion H; subst. rewrite app_nil_r. exact HJ.
Qed.

(* run-level: the invariant holds of the whole trace and the final state *)
Lemma run_J ops : forall tr s s' evss,
  Jst tr s -> run s ops = (s', evss) -> Jst (tr ++ concat evss) s'.
Proof.
  induction ops as [|o ops IH]; intros tr s s' evss HJ H; cbn in H.
  - inversion H; subst. cbn. rewrite app_nil_r. exact HJ.
  - destruct (step s o) as [s1 evs] eqn:Hs. destruct (run s1 ops) as [s2 rest] eqn:Hr.
    inversion H; subst. cbn. rewrite app_assoc.
    eapply IH; [|exact Hr]. eapply step_J; eauto.
Qed.

Theorem trace_J pid0 ops :
  Jst (trace (init pid0) ops) (fst (run (init pid0) ops)).
Proof.
  unfold trace. destruct (run (init pid0) ops) as [s' evss] eqn:Hr. cbn.
  change (concat evss) with ([] ++ concat evss).
  eapply run_J; [|exact Hr]. unfold Jst; cbn. apply J_init.
Qed.

(* --------------------------------------------------------- state invariant *)

Definition life_ok (s : sstate) : Prop :=
  if s_open s
  then match s_link s with
       | Some _ => s_dial s = None              (* connected: no dial in flight *)
       | None => s_dial s <> None \/ s_sleeps s <> []   (* down: a connect task exists *)
       end
  else s_link s = None /\ s_dial s = None /\ s_sleeps s = [] /\ s_queue s = [].

Record SInv (s : sstate) : Prop := {
  si_bound : (length (s_queue s) <= capacity)%nat;
  si_idle : forall c, s_link s = Some c -> s_queue s = [];
  si_life : life_ok s }.

Lemma filter_length_le {A} (f : A -> bool) l : (length (filter f l) <= length l)%nat.
Proof. induction l as [|x l IH]; cbn; [lia|]. destruct (f x); cbn; lia. Qed.

(* drain on an open client whose lifecycle is consistent *)
Lemma drain_SInv s s' evs :
  (length (s_queue s) <= capacity)%nat -> s_open s = true ->
  (forall c, s_link s = Some c -> s_dial s = None) ->
  (s_link s = None -> s_dial s <> None \/ s_sleeps s <> []) ->
  drain s = (s', evs) ->
  SInv s' /\ s_open s' = true /\ s_sleeps s' = s_sleeps s /\
  (s_link s' = s_link s \/ (s_link s' = None /\ s_dial s' <> None)).
Proof.
  unfold drain. intros Hb Ho Hc Hn H. destruct (s_link s) as [c|] eqn:Hl.
  - destruct (drain_q (s_now s) c (s_failw s) (s_queue s)) as [[evd rest] f] eqn:Hd.
    pose proof (drain_q_length _ _ _ _ _ _ _ Hd) as Hlen.
    destruct f.
    + unfold go_down, start_dial in H. rewrite (Hc c eq_refl) in H. inversion H; subst; cbn.
      repeat split; cbn; try lia; try discriminate; try exact Ho.
      * unfold life_ok; cbn. rewrite Ho. left; discriminate.
      * right. split; [reflexivity|discriminate].
    + apply drain_q_nofail_empty in Hd. subst rest. inversion H; subst; cbn.
      repeat split; cbn; try (unfold capacity; lia); try exact Ho; try reflexivity.
      * unfold life_ok; cbn. rewrite Ho, Hl. exact (Hc c eq_refl).
      * left. exact Hl.
  - inversion H; subst. repeat split; try assumption; try reflexivity.
    + intros c Hc'; congruence.
    + unfold life_ok. rewrite Ho, Hl. exact (Hn eq_refl).
    + left. exact Hl.
Qed.

Lemma go_down_SInv s q fw cl s' evs c :
  SInv s -> s_link s = Some c -> (length q <= capacity)%nat ->
  go_down s q fw cl = (s', evs) -> SInv s'.
Proof.
  intros HI Hl Hq H. pose proof (si_life _ HI) as L. unfold life_ok in L. rewrite Hl in L.
  destruct (s_open s) eqn:Ho; [|destruct L; discriminate].
  unfold go_down, start_dial in H. rewrite L in H. inversion H; subst.
  constructor; cbn; [exact Hq|intros; discriminate|].
  unfold life_ok; cbn. rewrite Ho. left; discriminate.
Qed.

Lemma dial_done_SInv s s' evs :
  (length (s_queue s) <= capacity)%nat -> s_open s = true -> s_link s = None -> s_dial s = None ->
  dial_done s = (s', evs) -> SInv s'.
Proof.
  intros Hb Ho Hl Hd H. unfold dial_done in H. destruct (s_accept s).
  - match type of H with (let '(_, _) := drain ?s1 in _) = _ =>
      remember s1 as s1' eqn:Es1; destruct (drain s1') as [s2 evd] eqn:Hdr end.
    assert (A1 : (length (s_queue s1') <= capacity)%nat) by (subst s1'; exact Hb).
    assert (A2 : s_open s1' = true) by (subst s1'; exact Ho).
    assert (A3 : forall c, s_link s1' = Some c -> s_dial s1' = None) by (subst s1'; reflexivity).
    assert (A4 : s_link s1' = None -> s_dial s1' <> None \/ s_sleeps s1' <> []) by (subst s1'; cbn; discriminate).
    destruct (drain_SInv _ _ _ A1 A2 A3 A4 Hdr) as [HI2 [Ho2 [Hs2 Hk2]]].
    destruct (s_link s2) eqn:Hl2; inversion H; subst s'; [exact HI2|].
    constructor; cbn; [exact (si_bound _ HI2)|intros c Hc; rewrite Hl2 in Hc; discriminate|].
    unfold life_ok; cbn. rewrite Ho2, Hl2. right. destruct (s_sleeps s2); discriminate.
  - inversion H; subst. constructor; cbn; [exact Hb|intros c Hc; congruence|].
    unfold life_ok; cbn. rewrite Ho, Hl. right. destruct (s_sleeps s); discriminate.
Qed.

Lemma SInv_ext s s1 :
  SInv s -> s_open s1 = s_open s -> s_link s1 = s_link s -> s_dial s1 = s_dial s ->
  s_sleeps s1 = s_sleeps s -> s_queue s1 = s_queue s -> SInv s1.
Proof.
  intros [Hb Hi Hl] E1 E2 E3 E4 E5. constructor; [now rewrite E5|intros c; rewrite E2, E5; apply Hi|].
  unfold life_ok in *. now rewrite E1, E2, E3, E4, E5.
Qed.

Lemma fire_dial_SInv s d s' evs :
  SInv s -> s_dial s = Some d -> fire_dial s d = (s', evs) -> SInv s'.
Proof.
  intros HI Hd H. unfold fire_dial in H.
  destruct (dial_done _) as [s2 evd] eqn:Hdd. inversion H; subst.
  pose proof (si_life _ HI) as L. unfold life_ok in L. rewrite Hd in L.
  destruct (s_open s) eqn:Ho; [|destruct L as [_ [? _]]; discriminate].
  destruct (s_link s) eqn:Hl; [discriminate|].
  eapply dial_done_SInv; [| | | |exact Hdd]; cbn; auto. exact (si_bound _ HI).
Qed.

Lemma wake_SInv s w s' evs :
  SInv s -> In w (s_sleeps s) -> wake s w = (s', evs) -> SInv s'.
Proof.
  intros HI Hw H. unfold wake in H. cbn in H.
  pose proof (si_life _ HI) as L. unfold life_ok in L.
  destruct (s_open s) eqn:Ho.
  - destruct (s_link s) eqn:Hl.
    + inversion H; subst. constructor; cbn; [exact (si_bound _ HI)|exact (si_idle _ HI)|].
      unfold life_ok; cbn. rewrite Ho, Hl. exact L.
    + destruct (s_dial s) eqn:Hd; inversion H; subst.
      * constructor; cbn; [exact (si_bound _ HI)|intros c Hc; congruence|].
        unfold life_ok; cbn. rewrite ?Ho, ?Hl, ?Hd. left; discriminate.
      * constructor; cbn; [exact (si_bound _ HI)|intros c Hc; congruence|].
        unfold life_ok; cbn. rewrite ?Ho, ?Hl. left; discriminate.
  - destruct L as [_ [_ [L3 _]]]. rewrite L3 in Hw. destruct Hw.
Qed.

Lemma step_SInv s o s' evs : SInv s -> step s o = (s', evs) -> SInv s'.
Proof.
  intros HI H. pose proof (si_life _ HI) as Hl. unfold life_ok in Hl.
  destruct o; cbn in H.
  - (* open *) destruct (s_open s) eqn:Ho; inversion H; subst; [exact HI|].
    destruct Hl as [L1 [L2 [L3 L4]]].
    constructor; cbn; [exact (si_bound _ HI)|intros c Hc; congruence|].
    unfold life_ok; cbn. rewrite L1. left; discriminate.
  - (* close *) destruct (s_open s) eqn:Ho; inversion H; subst; [|exact HI].
    constructor; cbn; [unfold capacity; lia|reflexivity|unfold life_ok; cbn; auto].
  - (* send *) unfold send in H.
    assert (Hq : (length (filter (unexpired (s_now s)) (s_queue s)) <= capacity)%nat)
      by (pose proof (filter_length_le (unexpired (s_now s)) (s_queue s)); pose proof (si_bound _ HI); lia).
    assert (Hflt : forall s1, s_open s1 = s_open s -> s_link s1 = s_link s -> s_dial s1 = s_dial s ->
                  s_sleeps s1 = s_sleeps s ->
                  s_queue s1 = filter (unexpired (s_now s)) (s_queue s) -> SInv s1).
    { intros s1 E1 E2 E3 E4 E5. constructor; [now rewrite E5|
        intros c; rewrite E2, E5; intros Hc; now rewrite (si_idle _ HI _ Hc)|].
      unfold life_ok in *. rewrite E1, E2, E3, E4, E5. destruct (s_open s); [exact Hl|].
      destruct Hl as [L1 [L2 [L3 L4]]]. rewrite L4. auto. }
    destruct cls; [| inversion H; subst; exact HI |];
    (destruct (negb (s_open s)) eqn:Hno;
     [inversion H; subst; apply (SInv_ext s); auto|];
     destruct (capacity <=? length (filter (unexpired (s_now s)) (s_queue s)))%nat eqn:Hcap;
     [inversion H; subst; apply Hflt; reflexivity|];
     match type of H with (let '(_, _) := drain ?s2 in _) = _ =>
       remember s2 as s2' eqn:Es2; destruct (drain s2') as [s3 evd] eqn:Hd end;
     inversion H; subst s'; apply negb_false_iff in Hno; rewrite Hno in Hl;
     apply Nat.leb_gt in Hcap;
     refine (proj1 (drain_SInv s2' s3 evd _ _ _ _ Hd)); subst s2'; cbn;
     [rewrite app_length; cbn; unfold capacity in *; lia | reflexivity
     | intros c Hc; rewrite Hc in Hl; exact Hl | intros Hc; rewrite Hc in Hl; exact Hl]).
  - (* adv *) destruct (adv_cases s dt) as [E|[[d [Hd [_ E]]]|[w [Hw [_ E]]]]]; rewrite E in H.
    + inversion H; subst. apply (SInv_ext s); auto.
    + eapply fire_dial_SInv; eauto.
    + eapply wake_SInv; eauto.
  - (* net *) inversion H; subst. apply (SInv_ext s); auto.
  - (* eof *) destruct (s_link s) eqn:Hk; [|inversion H; subst; exact HI].
    eapply go_down_SInv; [exact HI|exact Hk|exact (si_bound _ HI)|exact H].
  - (* rst *) destruct (s_link s) eqn:Hk; [|inversion H; subst; exact HI].
    eapply go_down_SInv; [exact HI|exact Hk|exact (si_bound _ HI)|exact H].
  - (* frame *) destruct (s_link s); inversion H; subst; exact HI.
  - (* bad *) destruct (s_link s) eqn:Hk; [|inversion H; subst; exact HI].
    eapply go_down_SInv; [exact HI|exact Hk|exact (si_bound _ HI)|exact H].
  - (* failw *) inversion H; subst. apply (SInv_ext s); auto.
  - (* reset *) destruct (s_link s) eqn:Hk; [|inversion H; subst; exact HI].
    eapply go_down_SInv; [exact HI|exact Hk|exact (si_bound _ HI)|exact H].
  - (* nop *) inversion H; subst. exact HI.
Qed.

Lemma SInv_init pid0 : SInv (init pid0).
Proof. constructor; cbn; [unfold capacity; lia|intros; discriminate|unfold life_ok; cbn; auto]. Qed.

Lemma run_SInv ops : forall s s' evss, SInv s -> run s ops = (s', evss) -> SInv s'.
Proof.
  induction ops as [|o ops IH]; intros s s' evss HI H; cbn in H.
  - inversion H; subst. exact HI.
  - destruct (step s o) as [s1 evs] eqn:Hs. destruct (run s1 ops) as [s2 rest] eqn:Hr.
    inversion H; subst. eapply IH; [|exact Hr]. eapply step_SInv; eauto.
Qed.

Theorem reachable_SInv pid0 ops : SInv (fst (run (init pid0) ops)).
Proof.
  destruct (run (init pid0) ops) as [s' evss] eqn:Hr. cbn.
  eapply run_SInv; [apply SInv_init|exact Hr].
Qed.

(* --------------------------------------- connections: single, closed, owned *)

(* Walk a trace keeping the set of connections the client holds open.  None = the
   discipline is violated: a second connection opened or dialled while one is open,
   something closed / written / delivered on a connection that is not the open one. *)
Fixpoint walk (acc : list nat) (evs : list ev) : option (list nat) :=
  match evs with
  | [] => Some acc
  | e :: r =>
    match e with
    | EOpen c => match acc with [] => walk [c] r | _ => None end
    | EDial => match acc with [] => walk acc r | _ => None end
    | EClose c | EWFail c _ | ELost c =>
      match acc with [c'] => if Nat.eqb c c' then walk [] r else None | _ => None end
    | EWrote c _ _ _ _ =>
      match acc with [c'] => if Nat.eqb c c' then walk acc r else None | _ => None end
    | EDeliver _ => match acc with [_] => walk acc r | _ => None end
    | _ => walk acc r
    end
  end.

Lemma walk_app acc a b :
  walk acc (a ++ b) = match walk acc a with Some acc' => walk acc' b | None => None end.
Proof.
  revert acc. induction a as [|e a IH]; intros acc; cbn; [reflexivity|].
  destruct e; try apply IH;
    destruct acc as [|c' [|? ?]]; try reflexivity; try apply IH;
    destruct (Nat.eqb _ c'); try reflexivity; apply IH.
Qed.

Definition held (s : sstate) : list nat :=
  match s_link s with Some c => [c] | None => [] end.

Lemma drain_q_walk now c fw q evs rest f :
  drain_q now c fw q = (evs, rest, f) -> walk [c] evs = Some (if f then [] else [c]).
Proof.
  revert fw evs rest f. induction q as [|e q IH]; intros fw evs rest f H; cbn in H.
  - inversion H; subst; reflexivity.
  - destruct (e_expiry e <=? now); [exact (IH _ _ _ _ H)|].
    destruct (e_cls e); [|exact (IH _ _ _ _ H)|exact (IH _ _ _ _ H)].
    destruct fw.
    + inversion H; subst. cbn. now rewrite Nat.eqb_refl.
    + destruct (drain_q now c false q) as [[evs' rest'] f'] eqn:Hd.
      inversion H; subst. cbn. rewrite Nat.eqb_refl. exact (IH _ _ _ _ Hd).
Qed.

Lemma go_down_walk s q fw cl s' evs :
  go_down s q fw cl = (s', evs) -> evs = cl ++ ENotify false :: snd (start_dial s) /\ held s' = [].
Proof.
  unfold go_down. destruct (start_dial s) as [d evd]. intros H. inversion H; subst. split; reflexivity.
Qed.

Lemma start_dial_walk s : walk [] (snd (start_dial s)) = Some [].
Proof. unfold start_dial. destruct (s_dial s); reflexivity. Qed.

Lemma drain_walk s s' evs : drain s = (s', evs) -> walk (held s) evs = Some (held s').
Proof.
  unfold drain. intros H. unfold held at 1. destruct (s_link s) as [c|] eqn:Hl.
  - destruct (drain_q (s_now s) c (s_failw s) (s_queue s)) as [[evd rest] f] eqn:Hd.
    pose proof (drain_q_walk _ _ _ _ _ _ _ Hd) as Hw. destruct f.
    + destruct (go_down s rest false []) as [s1 ev1] eqn:Hg. inversion H; subst.
      destruct (go_down_walk _ _ _ _ _ _ Hg) as [E1 E2]. rewrite walk_app, Hw, E1, E2. cbn.
      apply start_dial_walk.
    + inversion H; subst; cbn. unfold held; cbn. rewrite Hl. exact Hw.
  - inversion H; subst. unfold held. rewrite Hl. reflexivity.
Qed.

Lemma dial_done_walk s s' evs :
  s_link s = None -> dial_done s = (s', evs) -> walk [] evs = Some (held s').
Proof.
  unfold dial_done. intros Hl H. destruct (s_accept s).
  - match type of H with (let '(_, _) := drain ?s1 in _) = _ => destruct (drain s1) as [s2 evd] eqn:Hd end.
    apply drain_walk in Hd. unfold held at 1 in Hd. cbn in Hd.
    destruct (s_link s2) eqn:Hl2; inversion H; subst; cbn; rewrite Hd; unfold held; cbn; now rewrite Hl2.
  - inversion H; subst. unfold held; cbn. now rewrite Hl.
Qed.

Lemma step_walk s o s' evs :
  SInv s -> step s o = (s', evs) -> walk (held s) evs = Some (held s').
Proof.
  intros HI H. pose proof (si_life _ HI) as Hl. unfold life_ok in Hl.
  destruct o; cbn in H.
  - destruct (s_open s); inversion H; subst; [reflexivity|].
    destruct Hl as [L1 _]. unfold held; cbn. now rewrite L1.
  - destruct (s_open s); inversion H; subst; [|reflexivity].
    unfold held; cbn. destruct (s_link s); cbn; [now rewrite Nat.eqb_refl|reflexivity].
  - unfold send in H.
    destruct cls; [| inversion H; subst; reflexivity |];
    (destruct (negb (s_open s)); [inversion H; subst; reflexivity|];
     destruct (capacity <=? _)%nat; [inversion H; subst; reflexivity|];
     match type of H with (let '(_, _) := drain ?s2 in _) = _ => destruct (drain s2) as [s3 evd] eqn:Hd end;
     inversion H; subst; apply drain_walk in Hd; cbn; rewrite walk_app;
     unfold held in *; cbn in Hd; rewrite Hd; reflexivity).
  - destruct (adv_cases s dt) as [E|[[d [Hd [_ E]]]|[w [Hw [_ E]]]]]; rewrite E in H.
    + inversion H; subst. reflexivity.
    + rewrite Hd in Hl. destruct (s_open s); [|destruct Hl as [_ [? _]]; discriminate].
      destruct (s_link s) eqn:Hk; [discriminate|].
      unfold fire_dial in H. destruct (dial_done _) as [s2 evd] eqn:Hdd. inversion H; subst.
      apply dial_done_walk in Hdd; [|exact Hk]. unfold held at 1. rewrite Hk, walk_app, Hdd. reflexivity.
    + unfold wake in H. cbn in H. unfold held at 1.
      destruct (s_link s) eqn:Hk.
      * inversion H; subst. unfold held; cbn. now rewrite Hk.
      * destruct (s_dial s); inversion H; subst; unfold held; cbn; now rewrite Hk.
  - inversion H; subst. reflexivity.
  - unfold held at 1. destruct (s_link s) eqn:Hk; [|inversion H; subst; unfold held; now rewrite Hk].
    destruct (go_down_walk _ _ _ _ _ _ H) as [E1 E2]. rewrite E1, E2. cbn. rewrite Nat.eqb_refl. apply start_dial_walk.
  - unfold held at 1. destruct (s_link s) eqn:Hk; [|inversion H; subst; unfold held; now rewrite Hk].
    destruct (go_down_walk _ _ _ _ _ _ H) as [E1 E2]. rewrite E1, E2. cbn. rewrite Nat.eqb_refl. apply start_dial_walk.
  - unfold held. destruct (s_link s) eqn:Hk; inversion H; subst; cbn; now rewrite Hk.
  - unfold held at 1. destruct (s_link s) eqn:Hk; [|inversion H; subst; unfold held; now rewrite Hk].
    destruct (go_down_walk _ _ _ _ _ _ H) as [E1 E2]. rewrite E1, E2. cbn. rewrite Nat.eqb_refl. apply start_dial_walk.
  - inversion H; subst. reflexivity.
  - unfold held at 1. destruct (s_link s) eqn:Hk; [|inversion H; subst; unfold held; now rewrite Hk].
    destruct (go_down_walk _ _ _ _ _ _ H) as [E1 E2]. rewrite E1, E2. cbn. rewrite Nat.eqb_refl. apply start_dial_walk.
  - inversion H; subst. reflexivity.
Qed.

Lemma run_walk ops : forall s s' evss,
  SInv s -> run s ops = (s', evss) -> walk (held s) (concat evss) = Some (held s').
Proof.
  induction ops as [|o ops IH]; intros s s' evss HI H; cbn in H.
  - inversion H; subst. reflexivity.
  - destruct (step s o) as [s1 evs] eqn:Hs. destruct (run s1 ops) as [s2 rest] eqn:Hr.
    inversion H; subst. cbn. rewrite walk_app, (step_walk _ _ _ _ HI Hs).
    eapply IH; [|exact Hr]. eapply step_SInv; eauto.
Qed.

Theorem trace_walk pid0 ops :
  walk [] (trace (init pid0) ops) = Some (held (fst (run (init pid0) ops))).
Proof.
  unfold trace. destruct (run (init pid0) ops) as [s' evss] eqn:Hr. cbn.
  exact (run_walk ops _ _ _ (SInv_init pid0) Hr).
Qed.

Lemma walk_prefix acc a b r : walk acc (a ++ b) = Some r -> exists m, walk acc a = Some m.
Proof. rewrite walk_app. destruct (walk acc a); [eauto|discriminate]. Qed.

Lemma walk_le1 evs : forall acc r, (length acc <= 1)%nat -> walk acc evs = Some r -> (length r <= 1)%nat.
Proof.
  induction evs as [|e evs IH]; intros acc r Ha H; cbn in H; [inversion H; subst; exact Ha|].
  destruct e;
  repeat match type of H with
  | context [match ?x with _ => _ end] => destruct x; try discriminate
  end; (eapply IH; [|exact H]; cbn in *; lia).
Qed.

(* ------------------------------------------------------------ closed client *)

Definition closed_state (s : sstate) : Prop :=
  s_open s = false /\ s_link s = None /\ s_dial s = None /\ s_sleeps s = [] /\ s_queue s = [].

Definition silent_ev (e : ev) : bool :=
  match e with ESendErr _ | ETime _ => true | _ => false end.

Definition not_open_op (o : op) : bool := match o with OOpen => false | _ => true end.

Lemma step_closed s o s' evs :
  closed_state s -> not_open_op o = true -> step s o = (s', evs) ->
  closed_state s' /\ forallb silent_ev evs = true /\
  (forall k cls r l, o = OSend k cls r l -> evs = [ESendErr (match cls with EncNoEncoder => 1 | _ => 2 end)]).
Proof.
  intros [C1 [C2 [C3 [C4 C5]]]] Hno H. destruct o; try discriminate; cbn in H.
  - rewrite C1 in H. inversion H; subst. repeat split; auto. intros; discriminate.
  - unfold send in H. rewrite C1 in H. cbn in H.
    destruct cls; inversion H; subst; cbn; (split; [repeat split; auto|split; [reflexivity|]]);
      intros k0 c0 r0 l0 E; inversion E; subst; reflexivity.
  - unfold adv in H. rewrite C3, C4 in H. inversion H; subst.
    split; [repeat split; auto|split; [reflexivity|intros; discriminate]].
  - inversion H; subst. split; [repeat split; auto|split; [reflexivity|intros; discriminate]].
  - try rewrite C2 in H. inversion H; subst. split; [repeat split; auto|split; [reflexivity|intros; discriminate]].
  - try rewrite C2 in H. inversion H; subst. split; [repeat split; auto|split; [reflexivity|intros; discriminate]].
  - try rewrite C2 in H. inversion H; subst. split; [repeat split; auto|split; [reflexivity|intros; discriminate]].
  - try rewrite C2 in H. inversion H; subst. split; [repeat split; auto|split; [reflexivity|intros; discriminate]].
  - try rewrite C2 in H. inversion H; subst. split; [repeat split; auto|split; [reflexivity|intros; discriminate]].
  - try rewrite C2 in H. inversion H; subst. split; [repeat split; auto|split; [reflexivity|intros; discriminate]].
  - inversion H; subst. split; [repeat split; auto|split; [reflexivity|intros; discriminate]].
Qed.

Lemma run_closed ops : forall s s' evss,
  closed_state s -> forallb not_open_op ops = true -> run s ops = (s', evss) ->
  closed_state s' /\ forallb silent_ev (concat evss) = true.
Proof.
  induction ops as [|o ops IH]; intros s s' evss HC Hno H; cbn in H.
  - inversion H; subst. split; [exact HC|reflexivity].
  - cbn in Hno. apply andb_prop in Hno as [Ho Hops].
    destruct (step s o) as [s1 evs] eqn:Hs. destruct (run s1 ops) as [s2 rest] eqn:Hr.
    inversion H; subst. destruct (step_closed _ _ _ _ HC Ho Hs) as [HC1 [Hq _]].
    destruct (IH _ _ _ HC1 Hops Hr) as [HC2 Hq2]. split; [exact HC2|].
    cbn. rewrite forallb_app, Hq, Hq2. reflexivity.
Qed.

Lemma close_closed s s' evs : step s OClose = (s', evs) -> SInv s -> closed_state s'.
Proof.
  cbn. intros H HI. destruct (s_open s) eqn:Ho; inversion H; subst.
  - repeat split.
  - pose proof (si_life _ HI) as L. unfold life_ok in L. rewrite Ho in L. destruct L as [? [? [? ?]]].
    repeat split; assumption.
Qed.

(* ----------------------------------------------------------------- packet id *)

Fixpoint consuming (ops : list op) : nat :=
  match ops with
  | [] => 0
  | OSend _ EncNoEncoder _ _ :: r => consuming r
  | OSend _ _ _ _ :: r => S (consuming r)
  | _ :: r => consuming r
  end.

Lemma go_down_pid s q fw cl s' evs : go_down s q fw cl = (s', evs) -> s_pid s' = s_pid s.
Proof. unfold go_down. destruct (start_dial s). intros H; inversion H; subst; reflexivity. Qed.

Lemma drain_pid s s' evs : drain s = (s', evs) -> s_pid s' = s_pid s.
Proof.
  unfold drain. intros H. destruct (s_link s); [|inversion H; subst; reflexivity].
  destruct (drain_q _ _ _ _) as [[? rest] f]. destruct f; [|inversion H; subst; reflexivity].
  destruct (go_down s rest false []) as [s1 ev1] eqn:Hg. inversion H; subst.
  exact (go_down_pid _ _ _ _ _ _ Hg).
Qed.

Lemma dial_done_pid s s' evs : dial_done s = (s', evs) -> s_pid s' = s_pid s.
Proof.
  unfold dial_done. intros H. destruct (s_accept s).
  - match type of H with (let '(_, _) := drain ?s1 in _) = _ => destruct (drain s1) as [s3 evd'] eqn:Hd end.
    apply drain_pid in Hd. destruct (s_link s3); inversion H; subst; exact Hd.
  - inversion H; subst. reflexivity.
Qed.

Lemma step_pid s o s' evs : step s o = (s', evs) ->
  s_pid s' = match o with
             | OSend _ EncNoEncoder _ _ => s_pid s
             | OSend _ _ _ _ => next_pid (s_pid s)
             | _ => s_pid s end.
Proof.
  intros H. destruct o; cbn in H; try (inversion H; subst; reflexivity).
  - destruct (s_open s); inversion H; subst; reflexivity.
  - destruct (s_open s); inversion H; subst; reflexivity.
  - unfold send in H. destruct cls; [|inversion H; subst; reflexivity|];
    (destruct (negb (s_open s)); [inversion H; subst; reflexivity|];
     destruct (capacity <=? _)%nat; [inversion H; subst; reflexivity|];
     match type of H with (let '(_, _) := drain ?s2 in _) = _ => destruct (drain s2) as [s3 evd] eqn:Hd end;
     inversion H; subst; apply drain_pid in Hd; exact Hd).
  - destruct (adv_cases s dt) as [E|[[d [Hd [_ E]]]|[w [Hw [_ E]]]]]; rewrite E in H.
    + inversion H; subst. reflexivity.
    + unfold fire_dial in H. destruct (dial_done _) as [s2 evd] eqn:Hdd. inversion H; subst.
      apply dial_done_pid in Hdd. exact Hdd.
    + unfold wake in H. cbn in H. destruct (s_link s), (s_dial s); inversion H; subst; reflexivity.
  - destruct (s_link s); [exact (go_down_pid _ _ _ _ _ _ H)|inversion H; subst; reflexivity].
  - destruct (s_link s); [exact (go_down_pid _ _ _ _ _ _ H)|inversion H; subst; reflexivity].
  - destruct (s_link s); inversion H; subst; reflexivity.
  - destruct (s_link s); [exact (go_down_pid _ _ _ _ _ _ H)|inversion H; subst; reflexivity].
  - destruct (s_link s); [exact (go_down_pid _ _ _ _ _ _ H)|inversion H; subst; reflexivity].
Qed.

Lemma run_pid ops : forall s s' evss, run s ops = (s', evss) ->
  s_pid s' mod 256 = (s_pid s + Z.of_nat (consuming ops)) mod 256.
Proof.
  induction ops as [|o ops IH]; intros s s' evss H; cbn in H.
  - inversion H; subst. cbn. now rewrite Z.add_0_r.
  - destruct (step s o) as [s1 evs] eqn:Hs. destruct (run s1 ops) as [s2 rest] eqn:Hr.
    inversion H; subst. rewrite (IH _ _ _ Hr), (step_pid _ _ _ _ Hs).
    destruct o; cbn [consuming]; try reflexivity.
    destruct cls; try reflexivity; unfold next_pid;
      rewrite Nat2Z.inj_succ, Zplus_mod_idemp_l; f_equal; lia.
Qed.

(* ------------------------------------------------ functional characterisations *)

(* A connection comes up with no write fault armed: exactly the unexpired encodable
   pending messages are written, in acceptance (queue) order, once each, and nothing
   stays behind. *)
Lemma dial_done_flush s :
  s_accept s = true -> s_failw s = false ->
  dial_done s =
  (mkS (s_open s) (Some (s_ncid s)) [] None (s_sleeps s) (s_now s) (s_pid s) (S (s_ncid s)) (s_nsend s)
       (s_accept s) (s_lat s) false,
   EOpen (s_ncid s) :: ENotify true ::
   map (wrote_of (s_ncid s) (s_now s)) (filter (sendable (s_now s)) (s_queue s))).
Proof.
  intros Ha Hf. unfold dial_done, drain. rewrite Ha. cbn. rewrite Hf, drain_q_nofault. cbn.
  rewrite ?Ha. reflexivity.
Qed.

Lemma send_connected s c k r life :
  SInv s -> s_open s = true -> s_link s = Some c -> s_failw s = false -> 0 < life ->
  snd (step s (OSend k EncOk r life)) =
  [EAccept (s_nsend s) k (s_pid s) r (s_now s + life);
   EWrote c (s_nsend s) k (s_pid s) (s_now s); ESendOk]
  /\ s_queue (fst (step s (OSend k EncOk r life))) = []
  /\ s_link (fst (step s (OSend k EncOk r life))) = Some c.
Proof.
  intros HI Ho Hl Hf Hlife. cbn. unfold send. rewrite Ho. cbn.
  rewrite (si_idle _ HI c Hl). cbn. unfold drain. cbn. rewrite Hl, Hf. cbn.
  assert (s_now s + life <=? s_now s = false) as -> by lia. cbn. rewrite ?Hl. auto.
Qed.

Lemma send_overflow s k cls r life :
  s_open s = true -> cls <> EncNoEncoder ->
  (capacity <= length (filter (unexpired (s_now s)) (s_queue s)))%nat ->
  snd (step s (OSend k cls r life)) = [ESendErr 3] /\
  s_queue (fst (step s (OSend k cls r life))) = filter (unexpired (s_now s)) (s_queue s).
Proof.
  intros Ho Hc Hcap. unfold step, send. rewrite Ho. cbn [negb].
  apply Nat.leb_le in Hcap. destruct cls; try contradiction; rewrite Hcap; cbn [fst snd s_queue set_queue]; auto.
Qed.

Lemma send_not_open s k cls r life :
  s_open s = false -> cls <> EncNoEncoder ->
  snd (step s (OSend k cls r life)) = [ESendErr 2] /\
  s_queue (fst (step s (OSend k cls r life))) = s_queue s /\
  s_link (fst (step s (OSend k cls r life))) = s_link s /\
  s_dial (fst (step s (OSend k cls r life))) = s_dial s /\
  s_sleeps (fst (step s (OSend k cls r life))) = s_sleeps s.
Proof.
  intros Ho Hc. cbn. unfold send. rewrite Ho. cbn. destruct cls; try contradiction; cbn; auto.
Qed.

Lemma send_queued s k cls r life :
  s_open s = true -> s_link s = None -> cls <> EncNoEncoder ->
  (length (filter (unexpired (s_now s)) (s_queue s)) < capacity)%nat ->
  snd (step s (OSend k cls r life)) = [EAccept (s_nsend s) k (s_pid s) r (s_now s + life); ESendOk] /\
  s_queue (fst (step s (OSend k cls r life))) =
    filter (unexpired (s_now s)) (s_queue s) ++ [mkEntry (s_nsend s) k cls (s_pid s) r (s_now s + life)].
Proof.
  intros Ho Hl Hc Hcap. unfold step, send. rewrite Ho. cbn [negb].
  apply Nat.leb_gt in Hcap.
  destruct cls; try contradiction; rewrite Hcap; unfold drain; cbn [s_link]; rewrite Hl; cbn [fst snd s_queue]; auto.
Qed.

(* a transient write failure keeps an idempotent command: it goes back to the head *)
Lemma send_write_fault s c k n life :
  SInv s -> s_open s = true -> s_link s = Some c -> s_failw s = true -> 0 < life ->
  snd (step s (OSend k EncOk (S n) life)) =
  [EAccept (s_nsend s) k (s_pid s) (S n) (s_now s + life);
   EWFail c (s_nsend s); ENotify false; EDial; ESendOk]
  /\ s_queue (fst (step s (OSend k EncOk (S n) life))) =
     [mkEntry (s_nsend s) k EncOk (s_pid s) n (s_now s + life)]
  /\ s_link (fst (step s (OSend k EncOk (S n) life))) = None.
Proof.
  intros HI Ho Hl Hf Hlife.
  pose proof (si_life _ HI) as L. unfold life_ok in L. rewrite Ho, Hl in L.
  cbn. unfold send. rewrite Ho. cbn.
  rewrite (si_idle _ HI c Hl). cbn. unfold drain. cbn. rewrite Hl, Hf. cbn.
  assert (s_now s + life <=? s_now s = false) as -> by lia. cbn.
  unfold go_down, start_dial. cbn. rewrite L. cbn. auto.
Qed.

(* ------------------------------------------------------------ time invariant *)

Definition valid_op (o : op) : bool :=
  match o with OAdv dt => 0 <=? dt | ONet _ l => 0 <=? l | _ => true end.

Record TInv (s : sstate) : Prop := {
  ti_dial : forall d, s_dial s = Some d -> s_now s <= d;
  ti_sleeps : forall w, In w (s_sleeps s) -> s_now s <= w <= s_now s + retry_delay;
  ti_lat : 0 <= s_lat s }.

Lemma min_list_le_head l : forall x, min_list x l <= x.
Proof.
  induction l as [|z l IH]; intros x; cbn; [lia|]. specialize (IH (Z.min x z)). lia.
Qed.

Lemma min_list_le l : forall x y, In y (x :: l) -> min_list x l <= y.
Proof.
  induction l as [|z l IH]; intros x y H.
  - destruct H as [<-|[]]. cbn. lia.
  - cbn [min_list]. destruct H as [H|[H|H]].
    + subst y. pose proof (min_list_le_head l (Z.min x z)). lia.
    + subst y. pose proof (min_list_le_head l (Z.min x z)). lia.
    + apply IH. now right.
Qed.

Lemma remove_one_in x w l : In x (remove_one w l) -> In x l.
Proof.
  induction l as [|y l IH]; cbn; [auto|]. destruct (w =? y); [now right|].
  intros [<-|H]; [now left|right; auto].
Qed.

Lemma remove_one_length w l : In w l -> S (length (remove_one w l)) = length l.
Proof.
  induction l as [|y l IH]; cbn; [intros []|]. destruct (w =? y) eqn:E; [reflexivity|].
  intros [->|H]; [rewrite Z.eqb_refl in E; discriminate|]. cbn. now rewrite IH.
Qed.

(* adv_cases with the ordering facts each branch guarantees *)
Lemma adv_cases_strong s dt :
  (adv s dt = (set_now s (s_now s + dt), [ETime (s_now s + dt)]) /\
   (forall d, s_dial s = Some d -> s_now s + dt < d) /\
   (forall w, In w (s_sleeps s) -> s_now s + dt < w)) \/
  (exists d, s_dial s = Some d /\ d <= s_now s + dt /\ adv s dt = fire_dial s d /\
             (forall w, In w (s_sleeps s) -> d <= w)) \/
  (exists w, In w (s_sleeps s) /\ w <= s_now s + dt /\ adv s dt = wake s w /\
             (forall w', In w' (s_sleeps s) -> w <= w') /\ (forall d, s_dial s = Some d -> w < d)).
Proof.
  unfold adv. destruct (s_dial s) as [d|], (s_sleeps s) as [|x r] eqn:Hs.
  - destruct (d <=? s_now s + dt) eqn:E.
    + right; left. exists d. repeat split; auto; try lia. intros w [].
    + left. repeat split; [intros d0 H; inversion H; subst; lia|intros w []].
  - destruct (d <=? min_list x r) eqn:Em.
    + destruct (d <=? s_now s + dt) eqn:E.
      * right; left. exists d. repeat split; auto; try lia.
        intros w Hw. pose proof (min_list_le r x w Hw). lia.
      * left. repeat split; [intros d0 H; inversion H; subst; lia|].
        intros w Hw. pose proof (min_list_le r x w Hw). lia.
    + destruct (min_list x r <=? s_now s + dt) eqn:E.
      * right; right. exists (min_list x r). repeat split; [apply min_list_in|lia| |].
        -- intros w' Hw'. exact (min_list_le r x w' Hw').
        -- intros d0 H; inversion H; subst; lia.
      * left. repeat split; [intros d0 H; inversion H; subst; lia|].
        intros w Hw. pose proof (min_list_le r x w Hw). lia.
  - left. repeat split; [intros; discriminate|intros w []].
  - destruct (min_list x r <=? s_now s + dt) eqn:E.
    + right; right. exists (min_list x r). repeat split; [apply min_list_in|lia| |intros; discriminate].
      intros w' Hw'. exact (min_list_le r x w' Hw').
    + left. repeat split; [intros; discriminate|].
      intros w Hw. pose proof (min_list_le r x w Hw). lia.
Qed.

Lemma go_down_TInv s q fw cl s' evs : TInv s -> go_down s q fw cl = (s', evs) -> TInv s'.
Proof.
  intros [T1 T2 T3] H. unfold go_down, start_dial in H.
  destruct (s_dial s) as [d|] eqn:Hd; inversion H; subst; constructor; cbn; auto.
  - intros d0 E; inversion E; subst. unfold retry_delay in *. lia.
Qed.

Lemma drain_TInv s s' evs : TInv s -> drain s = (s', evs) -> TInv s' /\ s_now s' = s_now s.
Proof.
  unfold drain. intros HT H. destruct (s_link s); [|inversion H; subst; auto].
  destruct (drain_q _ _ _ _) as [[? rest] f]. destruct f.
  - destruct (go_down s rest false []) as [s1 ev1] eqn:Hg. inversion H; subst.
    split; [exact (go_down_TInv _ _ _ _ _ _ HT Hg)|].
    unfold go_down in Hg. destruct (start_dial s). inversion Hg; subst; reflexivity.
  - inversion H; subst. split; [|reflexivity]. destruct HT as [T1 T2 T3]. constructor; cbn; auto.
Qed.

Lemma dial_done_TInv s s' evs : TInv s -> dial_done s = (s', evs) -> TInv s'.
Proof.
  intros HT H. pose proof HT as [T1 T2 T3]. unfold dial_done in H. destruct (s_accept s).
  - match type of H with (let '(_, _) := drain ?s1 in _) = _ =>
      remember s1 as s1' eqn:Es1; destruct (drain s1') as [s2 evd] eqn:Hd end.
    assert (HT1 : TInv s1') by (subst s1'; constructor; cbn; auto; intros; discriminate).
    destruct (drain_TInv _ _ _ HT1 Hd) as [[U1 U2 U3] Hn].
    assert (Hn' : s_now s2 = s_now s) by (rewrite Hn; subst s1'; reflexivity).
    destruct (s_link s2); inversion H; subst s'; [constructor; auto|].
    constructor; cbn; auto. intros w Hw. apply in_app_or in Hw as [Hw|[<-|[]]]; [auto|].
    rewrite Hn'. unfold retry_delay. lia.
  - inversion H; subst. constructor; cbn; auto; [intros; discriminate|].
    intros w Hw. apply in_app_or in Hw as [Hw|[<-|[]]]; [auto|]. unfold retry_delay. lia.
Qed.

Lemma step_TInv s o s' evs : TInv s -> valid_op o = true -> step s o = (s', evs) -> TInv s'.
Proof.
  intros HT Hv H. pose proof HT as [T1 T2 T3]. destruct o; cbn in H, Hv.
  - destruct (s_open s); inversion H; subst; [exact HT|]. constructor; cbn; auto.
    intros d E; inversion E; subst. lia.
  - destruct (s_open s); inversion H; subst; [|exact HT]. constructor; cbn; auto; [intros; discriminate|intros w []].
  - unfold send in H.
    destruct cls; [| inversion H; subst; exact HT |];
    (destruct (negb (s_open s)); [inversion H; subst; constructor; cbn; auto|];
     destruct (capacity <=? _)%nat; [inversion H; subst; constructor; cbn; auto|];
     match type of H with (let '(_, _) := drain ?s2 in _) = _ =>
       remember s2 as s2' eqn:Es2; destruct (drain s2') as [s3 evd] eqn:Hd end;
     inversion H; subst s'; refine (proj1 (drain_TInv s2' s3 evd _ Hd)); subst s2'; constructor; cbn; auto).
  - apply Z.leb_le in Hv.
    destruct (adv_cases_strong s dt) as [[E [I1 I2]]|[[d [Hd [Hle [E Hmin]]]]|[w [Hw [Hle [E [Hmin Hlt]]]]]]]; rewrite E in H.
    + inversion H; subst. constructor; cbn; auto.
      * intros d Hd. specialize (I1 d Hd). lia.
      * intros w Hw. specialize (I2 w Hw). specialize (T2 w Hw). lia.
    + unfold fire_dial in H. destruct (dial_done _) as [s2 evd] eqn:Hdd. inversion H; subst.
      eapply dial_done_TInv; [|exact Hdd]. constructor; cbn; auto; [intros; discriminate|].
      intros w Hw. specialize (Hmin w Hw). specialize (T2 w Hw). specialize (T1 d Hd). lia.
    + unfold wake in H. cbn in H. pose proof (T2 w Hw) as Bw.
      assert (Hrest : forall x, In x (remove_one w (s_sleeps s)) -> w <= x <= w + retry_delay).
      { intros x Hx. apply remove_one_in in Hx. specialize (Hmin x Hx). specialize (T2 x Hx). lia. }
      destruct (s_link s); [inversion H; subst; constructor; cbn; auto|].
      * intros d Hd. specialize (Hlt d Hd). lia.
      * destruct (s_dial s) as [d|] eqn:Hd; inversion H; subst; constructor; cbn; auto.
        -- intros d0 E0; inversion E0; subst. specialize (Hlt d0 eq_refl). lia.
        -- intros d0 E0; inversion E0; subst. lia.
  - apply Z.leb_le in Hv. inversion H; subst. constructor; cbn; auto.
  - destruct (s_link s); [exact (go_down_TInv _ _ _ _ _ _ HT H)|inversion H; subst; exact HT].
  - destruct (s_link s); [exact (go_down_TInv _ _ _ _ _ _ HT H)|inversion H; subst; exact HT].
  - destruct (s_link s); inversion H; subst; exact HT.
  - destruct (s_link s); [exact (go_down_TInv _ _ _ _ _ _ HT H)|inversion H; subst; exact HT].
  - inversion H; subst. constructor; cbn; auto.
  - destruct (s_link s); [exact (go_down_TInv _ _ _ _ _ _ HT H)|inversion H; subst; exact HT].
  - inversion H; subst. exact HT.
Qed.

Lemma TInv_init pid0 : TInv (init pid0).
Proof. constructor; cbn; [intros; discriminate|intros w []|lia]. Qed.

Lemma run_TInv ops : forall s s' evss,
  TInv s -> forallb valid_op ops = true -> run s ops = (s', evss) -> TInv s'.
Proof.
  induction ops as [|o ops IH]; intros s s' evss HT Hv H; cbn in H.
  - inversion H; subst. exact HT.
  - cbn in Hv. apply andb_prop in Hv as [Hv1 Hv2].
    destruct (step s o) as [s1 evs] eqn:Hs. destruct (run s1 ops) as [s2 rest] eqn:Hr.
    inversion H; subst. eapply IH; [|exact Hv2|exact Hr]. eapply step_TInv; eauto.
Qed.

Theorem reachable_TInv pid0 ops :
  forallb valid_op ops = true -> TInv (fst (run (init pid0) ops)).
Proof.
  intros Hv. destruct (run (init pid0) ops) as [s' evss] eqn:Hr. cbn.
  eapply run_TInv; [apply TInv_init|exact Hv|exact Hr].
Qed.

(* ----------------------------------------------------------------- healing *)

Fixpoint advs (n : nat) (dt : Z) (s : sstate) : sstate :=
  match n with O => s | S m => advs m dt (fst (step s (OAdv dt))) end.

Lemma fire_dial_connects s d :
  s_accept s = true -> s_failw s = false ->
  let s' := fst (fire_dial s d) in
  s_link s' = Some (s_ncid s) /\ s_open s' = s_open s /\ s_now s' = d /\ s_dial s' = None.
Proof.
  intros Ha Hf. unfold fire_dial. rewrite dial_done_flush by (cbn; assumption). cbn. auto.
Qed.

Lemma heals_dialing : forall n s d dt,
  length (s_sleeps s) = n -> SInv s -> TInv s -> s_open s = true ->
  s_accept s = true -> s_failw s = false ->
  s_dial s = Some d -> d <= s_now s + dt -> 0 <= dt ->
  exists m, (m <= n + 1)%nat /\ s_link (advs m dt s) <> None /\
            s_open (advs m dt s) = true /\ s_now (advs m dt s) = d.
Proof.
  induction n as [|n IH]; intros s d dt Hn HI HT Ho Ha Hf Hd Hle Hdt;
  destruct (adv_cases_strong s dt) as [[E [I1 I2]]|[[d' [Hd' [Hle' [E Hmin]]]]|[w [Hw [Hlew [E [Hmin Hlt]]]]]]].
  - specialize (I1 d Hd). lia.
  - rewrite Hd in Hd'. inversion Hd'; subst d'. exists 1%nat. cbn [advs step]. rewrite E.
    destruct (fire_dial_connects s d Ha Hf) as [A [B [C _]]]. repeat split; [lia|congruence|congruence|exact C].
  - destruct (s_sleeps s); [destruct Hw|discriminate].
  - specialize (I1 d Hd). lia.
  - rewrite Hd in Hd'. inversion Hd'; subst d'. exists 1%nat. cbn [advs step]. rewrite E.
    destruct (fire_dial_connects s d Ha Hf) as [A [B [C _]]]. repeat split; [lia|congruence|congruence|exact C].
  - (* a sleeping task wakes first and ends silently: the dial is still in flight *)
    pose proof (si_life _ HI) as L. unfold life_ok in L. rewrite Ho, Hd in L.
    destruct (s_link s) eqn:Hk; [discriminate|].
    set (s1 := fst (step s (OAdv dt))).
    assert (Hstep : step s (OAdv dt) = (s1, snd (step s (OAdv dt)))) by (subst s1; destruct (step s (OAdv dt)); reflexivity).
    assert (HI1 : SInv s1) by (eapply step_SInv; [exact HI|exact Hstep]).
    assert (HT1 : TInv s1) by (eapply step_TInv; [exact HT| |exact Hstep]; cbn; lia).
    assert (Es1 : s1 = set_now (set_dial s (Some d) (remove_one w (s_sleeps s))) w).
    { subst s1. cbn [step]. rewrite E. unfold wake. cbn. rewrite Hk, Hd. reflexivity. }
    pose proof (ti_sleeps _ HT w Hw) as Bw.
    assert (A1 : length (s_sleeps s1) = n).
    { rewrite Es1; cbn. pose proof (remove_one_length w _ Hw). lia. }
    assert (A2 : s_open s1 = true) by (rewrite Es1; cbn; exact Ho).
    assert (A3 : s_accept s1 = true) by (rewrite Es1; cbn; exact Ha).
    assert (A4 : s_failw s1 = false) by (rewrite Es1; cbn; exact Hf).
    assert (A5 : s_dial s1 = Some d) by (rewrite Es1; reflexivity).
    assert (A6 : d <= s_now s1 + dt) by (rewrite Es1; cbn; lia).
    destruct (IH s1 d dt A1 HI1 HT1 A2 A3 A4 A5 A6 Hdt) as [m [M1 [M2 [M3 M4]]]].
    exists (S m). cbn [advs]. fold s1. repeat split; auto. lia.
Qed.

(* C07_heals, general form.  dt covers the dial in flight, or (no dial in flight) every
   pending wake-up plus one dial latency. *)
Definition covers (s : sstate) (dt : Z) : Prop :=
  (forall d, s_dial s = Some d -> d <= s_now s + dt) /\
  (s_dial s = None -> forall w, In w (s_sleeps s) -> w + s_lat s <= s_now s + dt).

Theorem heals s dt :
  SInv s -> TInv s -> s_open s = true -> s_accept s = true -> s_failw s = false ->
  0 <= dt -> covers s dt ->
  exists m, (m <= length (s_sleeps s) + 1)%nat /\ s_link (advs m dt s) <> None /\
            s_open (advs m dt s) = true /\ s_now (advs m dt s) <= s_now s + dt.
Proof.
  intros HI HT Ho Ha Hf Hdt [C1 C2].
  pose proof (si_life _ HI) as L. unfold life_ok in L. rewrite Ho in L.
  destruct (s_link s) eqn:Hk.
  - exists 0%nat. cbn. repeat split; [lia|congruence|exact Ho|lia].
  - destruct (s_dial s) as [d|] eqn:Hd.
    + destruct (heals_dialing _ s d dt eq_refl HI HT Ho Ha Hf Hd (C1 d eq_refl) Hdt) as [m [M1 [M2 [M3 M4]]]].
      exists m. repeat split; auto. rewrite M4. exact (C1 d eq_refl).
    + destruct L as [L|L]; [congruence|].
      destruct (adv_cases_strong s dt) as [[E [I1 I2]]|[[d' [Hd' _]]|[w [Hw [Hlew [E [Hmin Hlt]]]]]]].
      * destruct (s_sleeps s) as [|x r] eqn:Hs; [congruence|].
        specialize (I2 x (or_introl eq_refl)). specialize (C2 eq_refl x (or_introl eq_refl)).
        pose proof (ti_lat _ HT). lia.
      * rewrite Hd in Hd'. discriminate.
      * set (s1 := fst (step s (OAdv dt))).
        assert (Hstep : step s (OAdv dt) = (s1, snd (step s (OAdv dt)))) by (subst s1; destruct (step s (OAdv dt)); reflexivity).
        assert (HI1 : SInv s1) by (eapply step_SInv; [exact HI|exact Hstep]).
        assert (HT1 : TInv s1) by (eapply step_TInv; [exact HT| |exact Hstep]; cbn; lia).
        assert (Es1 : s1 = set_dial (set_now (set_dial s None (remove_one w (s_sleeps s))) w)
                              (Some (w + s_lat s)) (remove_one w (s_sleeps s))).
        { subst s1. cbn [step]. rewrite E. unfold wake. cbn. rewrite Hk, Hd. reflexivity. }
        pose proof (ti_sleeps _ HT w Hw) as Bw. pose proof (C2 eq_refl w Hw) as Cw.
        assert (A2 : s_open s1 = true) by (rewrite Es1; cbn; exact Ho).
        assert (A3 : s_accept s1 = true) by (rewrite Es1; cbn; exact Ha).
        assert (A4 : s_failw s1 = false) by (rewrite Es1; cbn; exact Hf).
        assert (A5 : s_dial s1 = Some (w + s_lat s)) by (rewrite Es1; reflexivity).
        assert (A6 : w + s_lat s <= s_now s1 + dt) by (rewrite Es1; cbn; lia).
        destruct (heals_dialing _ s1 (w + s_lat s) dt eq_refl HI1 HT1 A2 A3 A4 A5 A6 Hdt) as [m [M1 [M2 [M3 M4]]]].
        exists (S m). cbn [advs]. fold s1. repeat split; auto.
        -- rewrite Es1 in M1; cbn in M1. pose proof (remove_one_length w _ Hw). lia.
        -- rewrite M4. lia.
Qed.

(* with no dial in flight, 2 s + one latency always suffices *)
Corollary heals_backoff s :
  SInv s -> TInv s -> s_open s = true -> s_accept s = true -> s_failw s = false ->
  s_dial s = None ->
  exists m, (m <= length (s_sleeps s) + 1)%nat /\
            s_link (advs m (retry_delay + s_lat s) s) <> None /\
            s_now (advs m (retry_delay + s_lat s) s) <= s_now s + retry_delay + s_lat s.
Proof.
  intros HI HT Ho Ha Hf Hd.
  destruct (heals s (retry_delay + s_lat s) HI HT Ho Ha Hf) as [m [M1 [M2 [M3 M4]]]].
  - pose proof (ti_lat _ HT). unfold retry_delay. lia.
  - split; [intros d E; congruence|]. intros _ w Hw. pose proof (ti_sleeps _ HT w Hw). lia.
  - exists m. repeat split; auto. lia.
Qed.

(* ------------------------------------------------------- after the final close *)

Lemma run_app_fst a : forall s b, fst (run s (a ++ b)) = fst (run (fst (run s a)) b).
Proof.
  induction a as [|o a IH]; intros s b; cbn; [reflexivity|].
  destruct (step s o) as [s1 evs]. specialize (IH s1 b).
  destruct (run s1 (a ++ b)) as [s2 r]. destruct (run s1 a) as [s3 r']. cbn in *. exact IH.
Qed.

Lemma close_not_open s : s_open (fst (step s OClose)) = false.
Proof. cbn. destruct (s_open s) eqn:Ho; cbn; [reflexivity|exact Ho]. Qed.

Theorem trace_close_holds_nothing pid0 ops :
  walk [] (trace (init pid0) (ops ++ [OClose])) = Some [].
Proof.
  rewrite trace_walk. pose proof (reachable_SInv pid0 (ops ++ [OClose])) as HI.
  rewrite run_app_fst in *. set (s := fst (run (init pid0) ops)) in *.
  assert (E : fst (run s [OClose]) = fst (step s OClose)).
  { cbn [run]. destruct (step s OClose); reflexivity. }
  rewrite E in *. pose proof (si_life _ HI) as L. unfold life_ok in L.
  rewrite close_not_open in L. destruct L as [L1 _]. unfold held. now rewrite L1.
Qed.
