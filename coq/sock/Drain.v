(* Drain.v — the send queue of AirTouchSocket under transport back-pressure.

   Sock.v processes every stimulus until the client is quiescent; it cannot say what happens when
   writer.drain() blocks (the transport has paused the protocol) and other tasks call send()
   meanwhile.  This model covers exactly that, for fault-free links:

     _enqueue_message:  purge expired entries, refuse the eleventh, append;
     _drain_message_queue: while connected, pop the head; expired -> dropped; otherwise the three
       writes (handed to the transport at once) and `await drain()`, which suspends the loop
       while the transport is paused; every suspended loop continues when it resumes;
     _connect: the flush after the connected notification is such a loop too.

   The link going down / coming up is an input here (Sock.v is the model of that part); the link
   never goes down while a loop is suspended or the connected notification is running (that is a write fault: outside this model, run
   returns None).  Messages are encodable.  Time in ticks.  No proofs in this file. *)
From Coq Require Import ZArith List Bool.
From PV Require Import sock.Sock.
Import ListNotations.
Open Scope Z_scope.

Record dstate := mkD {
  d_conn : bool;             (* is_connected *)
  d_bp : bool;               (* the transport has paused writing: drain() blocks *)
  d_parked : nat;            (* drain loops suspended inside writer.drain() *)
  d_owed : bool;             (* _connect has set is_connected and is notifying: its flush is still to come *)
  d_queue : list entry;
  d_now : Z;
  d_nsend : nat }.

Inductive dev :=
| DAccept (i : nat) (expiry : Z)     (* send() number i accepted (ghost) *)
| DRefused                            (* QueueOverflowError *)
| DWrote (i : nat) (t : Z)           (* frame of send number i handed to the transport at t *)
| DDrop (i : nat) (t : Z).           (* entry discarded as expired at t (ghost) *)

Inductive dop :=
| DSend (retries : nat) (life : Z)
| DAdv (dt : Z)
| DBp (on : bool)
| DUp                                 (* a connection is established (then the flush) *)
| DConn                               (* a connection is established; the connected notification is running
                                         (subscribers may send now); the flush follows as DFlush *)
| DFlush                              (* ... the flush of _connect after the notification *)
| DDown.                              (* the link is lost while no loop is suspended *)

Definition dinit (conn : bool) : dstate := mkD conn false 0 false [] 0 0.

Definition ev_of (now : Z) (e : entry) : dev :=
  if unexpired now e then DWrote (e_idx e) now else DDrop (e_idx e) now.

(* one drain loop: events, what stays queued, suspended? *)
Fixpoint dloop (bp : bool) (now : Z) (q : list entry) : list dev * list entry * bool :=
  match q with
  | [] => ([], [], false)
  | e :: q' =>
    if unexpired now e then
      if bp then ([DWrote (e_idx e) now], q', true)
      else let '(evs, rest, p) := dloop bp now q' in (DWrote (e_idx e) now :: evs, rest, p)
    else let '(evs, rest, p) := dloop bp now q' in (DDrop (e_idx e) now :: evs, rest, p)
  end.

(* the purge at the start of _enqueue_message *)
Definition purge_evs (now : Z) (q : list entry) : list dev :=
  map (fun e => DDrop (e_idx e) now) (filter (fun e => negb (unexpired now e)) q).

Definition dstep (s : dstate) (o : dop) : option (dstate * list dev) :=
  match o with
  | DSend retries life =>
    let q := filter (unexpired (d_now s)) (d_queue s) in
    let pe := purge_evs (d_now s) (d_queue s) in
    if (capacity <=? length q)%nat then
      Some (mkD (d_conn s) (d_bp s) (d_parked s) (d_owed s) q (d_now s) (d_nsend s), pe ++ [DRefused])
    else
      let e := mkEntry (d_nsend s) 0 EncOk 0 retries (d_now s + life) in
      let q2 := q ++ [e] in
      if d_conn s then
        let '(evs, rest, p) := dloop (d_bp s) (d_now s) q2 in
        Some (mkD true (d_bp s) (d_parked s + (if p then 1 else 0)) (d_owed s) rest (d_now s) (S (d_nsend s)),
              pe ++ DAccept (d_nsend s) (d_now s + life) :: evs)
      else Some (mkD false (d_bp s) (d_parked s) (d_owed s) q2 (d_now s) (S (d_nsend s)),
                 pe ++ [DAccept (d_nsend s) (d_now s + life)])
  | DAdv dt =>
    if dt <? 0 then None
    else Some (mkD (d_conn s) (d_bp s) (d_parked s) (d_owed s) (d_queue s) (d_now s + dt) (d_nsend s), [])
  | DBp true => Some (mkD (d_conn s) true (d_parked s) (d_owed s) (d_queue s) (d_now s) (d_nsend s), [])
  | DBp false =>
    match d_parked s with
    | O => Some (mkD (d_conn s) false 0 (d_owed s) (d_queue s) (d_now s) (d_nsend s), [])
    | S _ =>
      (* the suspended loops continue in the order they were suspended; the first one empties the
         queue, the others find it empty *)
      let '(evs, rest, _) := dloop false (d_now s) (d_queue s) in
      Some (mkD (d_conn s) false 0 (d_owed s) rest (d_now s) (d_nsend s), evs)
    end
  | DUp =>
    if d_conn s then None
    else let '(evs, rest, p) := dloop (d_bp s) (d_now s) (d_queue s) in
         Some (mkD true (d_bp s) (if p then 1 else 0)%nat false rest (d_now s) (d_nsend s), evs)
  | DConn =>
    if d_conn s then None
    else Some (mkD true (d_bp s) 0 true (d_queue s) (d_now s) (d_nsend s), [])
  | DFlush =>
    if d_owed s then
      let '(evs, rest, p) := dloop (d_bp s) (d_now s) (d_queue s) in
      Some (mkD (d_conn s) (d_bp s) (d_parked s + (if p then 1 else 0)) false rest (d_now s) (d_nsend s), evs)
    else None
  | DDown =>
    if d_owed s then None
    else match d_parked s with
         | O => Some (mkD false (d_bp s) 0 false (d_queue s) (d_now s) (d_nsend s), [])
         | S _ => None
         end
  end.

Fixpoint drun (s : dstate) (ops : list dop) : option (dstate * list dev) :=
  match ops with
  | [] => Some (s, [])
  | o :: r =>
    match dstep s o with
    | None => None
    | Some (s1, e1) =>
      match drun s1 r with
      | None => None
      | Some (s2, e2) => Some (s2, e1 ++ e2)
      end
    end
  end.

(* per-stimulus traces for the correspondence check *)
Fixpoint drun_steps (s : dstate) (ops : list dop) : list (option (list dev)) :=
  match ops with
  | [] => []
  | o :: r =>
    match dstep s o with
    | None => [None]
    | Some (s1, e1) => Some e1 :: drun_steps s1 r
    end
  end.
