From Coq Require Import List Bool Arith Lia.
From PV Require Import sock.Teardown.
Import ListNotations.

Definition TInv (s : tstate) : Prop :=
  (t_cing s = true -> t_conn s = false) /\
  (t_tear s = true -> t_conn s = true) /\
  t_live s = (if t_conn s && negb (t_tear s) then 1 else 0) /\
  (t_open s = true -> t_conn s || t_cing s || (0 <? t_retry s) = true) /\
  (t_open s = false -> t_conn s = false /\ t_cing s = false /\ t_retry s = 0).

Lemma tinv_init : TInv tinit.
Proof. unfold TInv, tinit; cbn; repeat split; auto; discriminate. Qed.

Ltac crush := cbn in *; intuition (try discriminate; try congruence; try lia).

Lemma tinv_step : forall s e, TInv s -> TInv (tstep s e).
Proof.
  intros [o c g t w l r d] e H. unfold TInv in *.
  destruct e as [| | |owe| |]; destruct o, c, g, t, w; try destruct owe; destruct r as [|r];
    unfold tstep, attempt in *; cbn in *; crush.
Qed.

Lemma tinv_fold : forall evs s, TInv s -> TInv (fold_left tstep evs s).
Proof. induction evs as [|e evs IH]; cbn; intros s H; auto. apply IH, tinv_step, H. Qed.

Lemma tinv_run : forall evs, TInv (trun evs).
Proof. intros; apply tinv_fold, tinv_init. Qed.

(* at most one connection is open at any time, whatever fires inside a tear-down *)
Theorem teardown_single : forall evs, t_live (trun evs) <= 1.
Proof.
  intros evs. destruct (tinv_run evs) as (_ & _ & H & _). rewrite H.
  destruct (t_conn (trun evs) && negb (t_tear (trun evs))); lia.
Qed.

(* never wedged: once opened, the client is connected, or an attempt is in flight, or a retry is armed *)
Theorem teardown_never_wedged : forall evs, t_open (trun evs) = true ->
  t_conn (trun evs) = true \/ t_cing (trun evs) = true \/ 0 < t_retry (trun evs).
Proof.
  intros evs Ho. destruct (tinv_run evs) as (_ & _ & _ & H & _). specialize (H Ho).
  destruct (t_conn (trun evs)); auto. destruct (t_cing (trun evs)); auto. cbn in H.
  right; right. apply Nat.ltb_lt, H.
Qed.

(* a connection is attempted only when none is open and no tear-down is under way *)
Theorem teardown_dial_only_when_down : forall evs e,
  t_dials (trun (evs ++ [e])) <> t_dials (trun evs) ->
  t_conn (trun evs) = false \/ (t_tear (trun evs) = true /\ e = TTearDone).
Proof.
  intros evs e. unfold trun. rewrite fold_left_app. cbn. fold (trun evs).
  pose proof (tinv_run evs) as (H1 & H2 & H3 & H4 & H5).
  destruct (trun evs) as [o c g t w l r d]; cbn in *.
  destruct c; auto. intros Hd. right.
  destruct e as [| | |owe| |]; cbn in Hd.
  - destruct o; cbn in Hd; [contradiction|]. destruct (H5 eq_refl) as (Hc & _); discriminate.
  - destruct g; cbn in Hd; contradiction.
  - destruct g; cbn in Hd; contradiction.
  - destruct t; cbn in Hd; contradiction.
  - destruct t; [auto|cbn in Hd; contradiction].
  - destruct r; cbn in Hd; [contradiction|]. unfold attempt in Hd; cbn in Hd. contradiction.
Qed.

(* ... and the attempt made when a tear-down ends is made after is_connected has been cleared: state after the step *)
Theorem teardown_after_dial_state : forall evs e,
  t_dials (trun (evs ++ [e])) <> t_dials (trun evs) ->
  t_conn (trun (evs ++ [e])) = false /\ t_live (trun (evs ++ [e])) = 0 /\ t_cing (trun (evs ++ [e])) = true.
Proof.
  intros evs e Hd.
  pose proof (tinv_run (evs ++ [e])) as (H1 & H2 & H3 & _).
  assert (Hg : t_cing (trun (evs ++ [e])) = true).
  { revert Hd. unfold trun. rewrite fold_left_app. cbn. fold (trun evs).
    destruct (trun evs) as [o c g t w l r d]; cbn.
    destruct e as [| | |owe| |]; cbn.
    - destruct o; cbn; [contradiction|]. unfold attempt; cbn. destruct (c || g); cbn; auto; contradiction.
    - destruct g; cbn; contradiction.
    - destruct g; cbn; contradiction.
    - destruct (c && negb t); cbn; contradiction.
    - destruct t; cbn; [|contradiction]. unfold attempt; cbn. destruct g; cbn; destruct w; cbn; auto; contradiction.
    - destruct r; cbn; [contradiction|]. unfold attempt; cbn. destruct (c || g); cbn; auto; contradiction. }
  specialize (H1 Hg). rewrite H1 in H3. cbn in H3. auto.
Qed.

(* the order inside _disconnect() matters: with is_connected cleared before the wait, a retry that fires inside the
   tear-down opens a connection which the resumed _disconnect() forgets - two connections end up open *)
Definition trun_early (evs : list tev) : tstate := fold_left tstep_early evs tinit.

Theorem teardown_order_matters :
  t_live (trun_early [TOpen; TDialOk; TLost true; TTearDone; TDialOk; TLost false; TRetryFire; TDialOk; TTearDone; TDialOk]) = 2
  /\ t_live (trun [TOpen; TDialOk; TLost true; TTearDone; TDialOk; TLost false; TRetryFire; TDialOk; TTearDone; TDialOk]) = 1.
Proof. split; vm_compute; reflexivity. Qed.

(* non-vacuity: the history of the witness reaches a state with an armed retry while connected *)
Example teardown_armed_while_connected :
  let s := trun [TOpen; TDialOk; TLost true; TTearDone; TDialOk] in t_conn s = true /\ t_retry s = 1 /\ t_live s = 1.
Proof. vm_compute; auto. Qed.

(* ---- the acceptor ------------------------------------------------------------------------------------------- *)
Definition AInv (a : astate) : Prop :=
  (a_cing a = true -> a_conn a = false) /\ (a_tear a = true -> a_conn a = true) /\
  a_live a = (if a_conn a && negb (a_tear a) then 1 else 0).

Lemma ainv_step : forall a o a', AInv a -> astep a o = Some a' -> AInv a'.
Proof.
  intros [c g t l] o a' H Hs. unfold AInv in *.
  destruct o; destruct c, g, t; cbn in *; inversion Hs; subst; crush.
Qed.

Lemma ainv_run : forall os a a', AInv a -> arun a os = Some a' -> AInv a'.
Proof.
  induction os as [|o os IH]; cbn; intros a a' H Hr; [inversion Hr; subst; auto|].
  destruct (astep a o) as [a1|] eqn:E; [|discriminate]. eapply IH; [eapply ainv_step; eauto|auto].
Qed.

(* whatever trace of observables the acceptor accepts: never two connections open *)
Theorem acceptor_single : forall os a', arun ainit os = Some a' -> a_live a' <= 1.
Proof.
  intros os a' Hr. assert (H : AInv ainit) by (unfold AInv, ainit; cbn; crush).
  destruct (ainv_run _ _ _ H Hr) as (_ & _ & Hl). rewrite Hl. destruct (a_conn a' && negb (a_tear a')); lia.
Qed.

(* the acceptor is not stricter than the model: every run of the model is accepted, and ends in the model's state *)
Lemma eqb_S_self : forall d, Nat.eqb (S d) d = false.
Proof. intros d. apply Nat.eqb_neq. lia. Qed.

Lemma accept_step : forall s e, TInv s -> arun (abs s) (project1 s e) = Some (abs (tstep s e)).
Proof.
  intros [o c g t w l r d] e H. unfold TInv in H.
  destruct e as [| | |owe| |]; destruct o, c, g, t, w; try destruct owe; destruct r as [|r];
    unfold project1, dialled, tstep, attempt, abs in *; cbn -[Nat.eqb] in *;
    rewrite ?eqb_S_self, ?Nat.eqb_refl; cbn -[Nat.eqb]; crush.
Qed.

Lemma arun_app : forall os1 os2 a a1, arun a os1 = Some a1 -> arun a (os1 ++ os2) = arun a1 os2.
Proof.
  induction os1 as [|o os1 IH]; cbn; intros os2 a a1 H; [inversion H; auto|].
  destruct (astep a o); [eauto|discriminate].
Qed.

Theorem acceptor_complete : forall evs s, TInv s -> arun (abs s) (project s evs) = Some (abs (fold_left tstep evs s)).
Proof.
  induction evs as [|e evs IH]; cbn; intros s H; auto.
  rewrite (arun_app _ _ _ _ (accept_step s e H)). apply IH, tinv_step, H.
Qed.

Corollary acceptor_accepts_model_runs : forall evs, arun ainit (project tinit evs) = Some (abs (trun evs)).
Proof. intros. apply (acceptor_complete evs tinit tinv_init). Qed.
