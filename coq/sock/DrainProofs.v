(* DrainProofs.v — the send queue under back-pressure (Drain.v): for every history of sends, clock
   advances, pauses / resumptions of the transport and (fault-free) link changes,
   frames are handed to the transport in acceptance order, each at most once, only before their
   lifetime has ended, only if accepted; and whenever the client is connected with no loop suspended,
   every accepted message has been transmitted or had expired.  C01 / C02 / C16 under back-pressure. *)
From Coq Require Import ZArith List Bool Lia Arith Sorting.Sorted.
From PV Require Import sock.Sock sock.Drain.
Import ListNotations.
Open Scope Z_scope.

Definition idxs (q : list entry) : list nat := map e_idx q.
Definition written (tr : list dev) : list nat :=
  flat_map (fun e => match e with DWrote i _ => [i] | _ => [] end) tr.

(* ------------------------------------------------------------------ sorted lists of ordinals *)
Lemma ss_app (a b : list nat) :
  StronglySorted lt (a ++ b) <->
  StronglySorted lt a /\ StronglySorted lt b /\ (forall x y, In x a -> In y b -> (x < y)%nat).
Proof.
  induction a as [|h a IH]; cbn.
  - split; [intros H; repeat split; [constructor|exact H|intros x y []]|intros [_ [H _]]; exact H].
  - split.
    + intros H. inversion H as [|? ? Hs Hf]; subst. apply IH in Hs as [Sa [Sb Hab]].
      rewrite Forall_app in Hf. destruct Hf as [Fa Fb]. repeat split.
      * constructor; assumption.
      * exact Sb.
      * intros x y [<-|Hx] Hy; [rewrite Forall_forall in Fb; now apply Fb|now apply Hab].
    + intros [Sa [Sb Hab]]. inversion Sa as [|? ? Sa' Fa]; subst. constructor.
      * apply IH. repeat split; [exact Sa'|exact Sb|intros x y Hx Hy; apply Hab; [now right|exact Hy]].
      * rewrite Forall_app. split; [exact Fa|]. rewrite Forall_forall. intros y Hy. apply Hab; [now left|exact Hy].
Qed.

Lemma ss_filter (f : entry -> bool) q : StronglySorted lt (idxs q) -> StronglySorted lt (idxs (filter f q)).
Proof.
  induction q as [|e q IH]; cbn; intros H; [constructor|]. inversion H as [|? ? Hs Hf]; subst.
  destruct (f e); cbn; [|now apply IH]. constructor; [now apply IH|].
  rewrite Forall_forall in *. intros y Hy. apply Hf. unfold idxs in *. rewrite in_map_iff in *.
  destruct Hy as [x [<- Hx]]. apply filter_In in Hx as [Hx _]. now exists x.
Qed.

Lemma written_app a b : written (a ++ b) = written a ++ written b.
Proof. unfold written. now rewrite flat_map_app. Qed.

Lemma written_evof now pre : written (map (ev_of now) pre) = idxs (filter (unexpired now) pre).
Proof.
  induction pre as [|e pre IH]; [reflexivity|]. unfold written in *. cbn [map flat_map filter].
  unfold ev_of at 1. destruct (unexpired now e); cbn [app idxs map]; rewrite IH; reflexivity.
Qed.

Lemma written_purge now q : written (purge_evs now q) = [].
Proof. unfold purge_evs. induction (filter _ q) as [|e l IH]; [reflexivity|exact IH]. Qed.

Lemma in_wrote_evof now pre i t :
  In (DWrote i t) (map (ev_of now) pre) <-> exists e, In e pre /\ e_idx e = i /\ t = now /\ unexpired now e = true.
Proof.
  rewrite in_map_iff. split.
  - intros [e [He Hin]]. unfold ev_of in He. destruct (unexpired now e) eqn:U; [|discriminate].
    injection He as <- <-. now exists e.
  - intros [e [Hin [<- [-> U]]]]. exists e. split; [|exact Hin]. unfold ev_of. now rewrite U.
Qed.

Lemma in_drop_evof now pre i t :
  In (DDrop i t) (map (ev_of now) pre) <-> exists e, In e pre /\ e_idx e = i /\ t = now /\ unexpired now e = false.
Proof.
  rewrite in_map_iff. split.
  - intros [e [He Hin]]. unfold ev_of in He. destruct (unexpired now e) eqn:U; [discriminate|].
    injection He as <- <-. now exists e.
  - intros [e [Hin [<- [-> U]]]]. exists e. split; [|exact Hin]. unfold ev_of. now rewrite U.
Qed.

Lemma in_accept_evof now pre i x : ~ In (DAccept i x) (map (ev_of now) pre).
Proof. rewrite in_map_iff. intros [e [He _]]. unfold ev_of in He. destruct (unexpired now e); discriminate. Qed.

Lemma in_drop_purge now q i t :
  In (DDrop i t) (purge_evs now q) <-> exists e, In e q /\ e_idx e = i /\ t = now /\ unexpired now e = false.
Proof.
  unfold purge_evs. rewrite in_map_iff. split.
  - intros [e [He Hin]]. injection He as <- <-. apply filter_In in Hin as [Hin U]. exists e. repeat split; [exact Hin|].
    now destruct (unexpired now e).
  - intros [e [Hin [<- [-> U]]]]. exists e. split; [reflexivity|]. apply filter_In. split; [exact Hin|now rewrite U].
Qed.

Lemma in_other_purge now q ev : (forall i t, ev <> DDrop i t) -> ~ In ev (purge_evs now q).
Proof. unfold purge_evs. rewrite in_map_iff. intros H [e [He _]]. now apply (H (e_idx e) now). Qed.

Lemma ev_of_true now e : unexpired now e = true -> ev_of now e = DWrote (e_idx e) now.
Proof. intros U. unfold ev_of. now rewrite U. Qed.
Lemma ev_of_false now e : unexpired now e = false -> ev_of now e = DDrop (e_idx e) now.
Proof. intros U. unfold ev_of. now rewrite U. Qed.

(* ------------------------------------------------------------------ one drain loop *)
Lemma dloop_spec bp now q :
  exists pre, let '(evs, rest, p) := dloop bp now q in
    q = pre ++ rest /\ evs = map (ev_of now) pre /\ (p = false -> rest = []) /\ (bp = false -> p = false).
Proof.
  induction q as [|e q IH]; cbn.
  - exists []. repeat split.
  - destruct (unexpired now e) eqn:U.
    + destruct bp.
      * exists [e]. cbn [app map]. rewrite (ev_of_true _ _ U). repeat split; discriminate.
      * destruct IH as [pre IH]. destruct (dloop false now q) as [[evs rest] p]. destruct IH as [-> [-> [H1 H2]]].
        exists (e :: pre). cbn [app map]. rewrite (ev_of_true _ _ U). repeat split; assumption.
    + destruct IH as [pre IH]. destruct (dloop bp now q) as [[evs rest] p]. destruct IH as [-> [-> [H1 H2]]].
      exists (e :: pre). cbn [app map]. rewrite (ev_of_false _ _ U). repeat split; assumption.
Qed.

(* ------------------------------------------------------------------ the queue / trace invariant *)
Record QInv (q : list entry) (n : nat) (tr : list dev) : Prop := mkQ {
  q_sorted : StronglySorted lt (idxs q);
  q_below : Forall (fun e => (e_idx e < n)%nat) q;
  q_after : forall i e, In i (written tr) -> In e q -> (i < e_idx e)%nat;
  q_wbelow : Forall (fun i => (i < n)%nat) (written tr);
  q_wsorted : StronglySorted lt (written tr);
  q_wrote : forall i t, In (DWrote i t) tr -> exists x, In (DAccept i x) tr /\ t < x;
  q_done : forall i x, In (DAccept i x) tr ->
             (exists t, In (DWrote i t) tr) \/ (exists t, In (DDrop i t) tr /\ x <= t) \/
             (exists e, In e q /\ e_idx e = i /\ e_expiry e = x);
  q_acc : forall e, In e q -> In (DAccept (e_idx e) (e_expiry e)) tr;
  q_accbelow : forall i x, In (DAccept i x) tr -> (i < n)%nat }.

Lemma qinv_init : QInv [] 0 [].
Proof. constructor; cbn; try constructor; intros; contradiction. Qed.

Lemma unexpired_spec now e : unexpired now e = true <-> now < e_expiry e.
Proof. unfold unexpired. apply Z.ltb_lt. Qed.

Lemma qinv_loop bp now q n tr :
  QInv q n tr -> let '(evs, rest, p) := dloop bp now q in QInv rest n (tr ++ evs).
Proof.
  intros I. destruct (dloop_spec bp now q) as [pre H]. destruct (dloop bp now q) as [[evs rest] p].
  destruct H as [-> [-> _]]. destruct I as [S B A WB WS W D AC AB].
  unfold idxs in S. rewrite map_app in S. apply ss_app in S as [Spre [Srest Hpr]].
  rewrite Forall_app in B. destruct B as [Bpre Brest].
  constructor.
  - exact Srest.
  - exact Brest.
  - intros i e Hi He. rewrite written_app, in_app_iff in Hi. destruct Hi as [Hi|Hi].
    + apply (A i e Hi). apply in_or_app. now right.
    + rewrite written_evof in Hi. unfold idxs in Hi. rewrite in_map_iff in Hi. destruct Hi as [e0 [<- H0]].
      apply filter_In in H0 as [H0 _]. apply Hpr; unfold idxs; apply in_map; assumption.
  - rewrite written_app, Forall_app. split; [exact WB|]. rewrite written_evof, Forall_forall. intros i Hi.
    unfold idxs in Hi. rewrite in_map_iff in Hi. destruct Hi as [e0 [<- H0]]. apply filter_In in H0 as [H0 _].
    rewrite Forall_forall in Bpre. now apply Bpre.
  - rewrite written_app. apply ss_app. repeat split.
    + exact WS.
    + rewrite written_evof. apply ss_filter. exact Spre.
    + intros x y Hx Hy. rewrite written_evof in Hy. unfold idxs in Hy. rewrite in_map_iff in Hy.
      destruct Hy as [e0 [<- H0]]. apply filter_In in H0 as [H0 _]. apply (A x e0 Hx). apply in_or_app. now left.
  - intros i t Hi. rewrite in_app_iff in Hi. destruct Hi as [Hi|Hi].
    + destruct (W i t Hi) as [x [Hx Hlt]]. exists x. split; [apply in_or_app; now left|exact Hlt].
    + apply in_wrote_evof in Hi as [e [He [<- [-> U]]]]. exists (e_expiry e). split.
      * apply in_or_app. left. apply AC. apply in_or_app. now left.
      * now apply unexpired_spec.
  - intros i x Hi. rewrite in_app_iff in Hi. destruct Hi as [Hi|Hi]; [|now apply in_accept_evof in Hi].
    destruct (D i x Hi) as [[t Ht]|[[t [Ht Hle]]|[e [He [Hie Hxe]]]]].
    + left. exists t. apply in_or_app. now left.
    + right. left. exists t. split; [apply in_or_app; now left|exact Hle].
    + apply in_app_or in He. destruct He as [He|He].
      * destruct (unexpired now e) eqn:U.
        -- left. exists now. apply in_or_app. right. apply in_wrote_evof. exists e. repeat split; assumption.
        -- right. left. exists now. split.
           ++ apply in_or_app. right. apply in_drop_evof. exists e. repeat split; assumption.
           ++ subst x. unfold unexpired in U. apply Z.ltb_ge in U. exact U.
      * right. right. exists e. repeat split; assumption.
  - intros e He. apply in_or_app. left. apply AC. apply in_or_app. now right.
  - intros i x Hi. rewrite in_app_iff in Hi. destruct Hi as [Hi|Hi]; [now apply (AB i x)|now apply in_accept_evof in Hi].
Qed.

Lemma qinv_purge now q n tr : QInv q n tr -> QInv (filter (unexpired now) q) n (tr ++ purge_evs now q).
Proof.
  intros [S B A WB WS W D AC AB]. constructor.
  - now apply ss_filter.
  - rewrite Forall_forall in *. intros e He. apply filter_In in He as [He _]. now apply B.
  - intros i e Hi He. rewrite written_app, written_purge, app_nil_r in Hi. apply filter_In in He as [He _]. now apply (A i e).
  - now rewrite written_app, written_purge, app_nil_r.
  - now rewrite written_app, written_purge, app_nil_r.
  - intros i t Hi. rewrite in_app_iff in Hi. destruct Hi as [Hi|Hi].
    + destruct (W i t Hi) as [x [Hx Hlt]]. exists x. split; [apply in_or_app; now left|exact Hlt].
    + exfalso. revert Hi. apply in_other_purge. discriminate.
  - intros i x Hi. rewrite in_app_iff in Hi. destruct Hi as [Hi|Hi]; [|exfalso; revert Hi; apply in_other_purge; discriminate].
    destruct (D i x Hi) as [[t Ht]|[[t [Ht Hle]]|[e [He [Hie Hxe]]]]].
    + left. exists t. apply in_or_app. now left.
    + right. left. exists t. split; [apply in_or_app; now left|exact Hle].
    + destruct (unexpired now e) eqn:U.
      * right. right. exists e. repeat split; try assumption. apply filter_In. now split.
      * right. left. exists now. split.
        -- apply in_or_app. right. apply in_drop_purge. exists e. repeat split; assumption.
        -- subst x. unfold unexpired in U. apply Z.ltb_ge in U. exact U.
  - intros e He. apply filter_In in He as [He _]. apply in_or_app. left. now apply AC.
  - intros i x Hi. rewrite in_app_iff in Hi. destruct Hi as [Hi|Hi]; [now apply (AB i x)|exfalso; revert Hi; apply in_other_purge; discriminate].
Qed.

Lemma qinv_refused q n tr : QInv q n tr -> QInv q n (tr ++ [DRefused]).
Proof.
  intros [S B A WB WS W D AC AB].
  assert (Hw : written (tr ++ [DRefused]) = written tr) by (rewrite written_app; cbn; apply app_nil_r).
  constructor; try assumption.
  - intros i e Hi. rewrite Hw in Hi. now apply A.
  - now rewrite Hw.
  - now rewrite Hw.
  - intros i t Hi. apply in_app_or in Hi. destruct Hi as [Hi|[Hi|[]]]; [|discriminate].
    destruct (W i t Hi) as [x [Hx Hlt]]. exists x. split; [apply in_or_app; now left|exact Hlt].
  - intros i x Hi. apply in_app_or in Hi. destruct Hi as [Hi|[Hi|[]]]; [|discriminate].
    destruct (D i x Hi) as [[t Ht]|[[t [Ht Hle]]|H]].
    + left. exists t. apply in_or_app. now left.
    + right. left. exists t. split; [apply in_or_app; now left|exact Hle].
    + right. right. exact H.
  - intros e He. apply in_or_app. left. now apply AC.
  - intros i x Hi. apply in_app_or in Hi. destruct Hi as [Hi|[Hi|[]]]; [now apply (AB i x)|discriminate].
Qed.

Lemma qinv_accept q n tr k cls pid r x :
  QInv q n tr -> QInv (q ++ [mkEntry n k cls pid r x]) (S n) (tr ++ [DAccept n x]).
Proof.
  intros [S B A WB WS W D AC AB].
  assert (Hw : written (tr ++ [DAccept n x]) = written tr) by (rewrite written_app; cbn; apply app_nil_r).
  constructor.
  - unfold idxs. rewrite map_app. apply ss_app. repeat split.
    + exact S.
    + cbn. constructor; constructor.
    + intros a b Ha [<-|[]]. cbn. unfold idxs in Ha. rewrite in_map_iff in Ha. destruct Ha as [e [<- He]].
      rewrite Forall_forall in B. now apply B.
  - rewrite Forall_app. split.
    + rewrite Forall_forall in *. intros e He. specialize (B e He). lia.
    + constructor; [cbn; lia|constructor].
  - intros i e Hi He. rewrite Hw in Hi. apply in_app_or in He. destruct He as [He|[<-|[]]].
    + now apply A.
    + cbn. rewrite Forall_forall in WB. now apply WB.
  - rewrite Hw. rewrite Forall_forall in *. intros i Hi. specialize (WB i Hi). lia.
  - now rewrite Hw.
  - intros i t Hi. apply in_app_or in Hi. destruct Hi as [Hi|[Hi|[]]]; [|discriminate].
    destruct (W i t Hi) as [y [Hy Hlt]]. exists y. split; [apply in_or_app; now left|exact Hlt].
  - intros i y Hi. apply in_app_or in Hi. destruct Hi as [Hi|[Hi|[]]].
    + destruct (D i y Hi) as [[t Ht]|[[t [Ht Hle]]|[e [He [Hie Hxe]]]]].
      * left. exists t. apply in_or_app. now left.
      * right. left. exists t. split; [apply in_or_app; now left|exact Hle].
      * right. right. exists e. repeat split; try assumption. apply in_or_app. now left.
    + injection Hi as <- <-. right. right. exists (mkEntry n k cls pid r x). repeat split. apply in_or_app. right. now left.
  - intros e He. apply in_app_or in He. destruct He as [He|[<-|[]]].
    + apply in_or_app. left. now apply AC.
    + cbn. apply in_or_app. right. now left.
  - intros i y Hi. apply in_app_or in Hi. destruct Hi as [Hi|[Hi|[]]].
    + specialize (AB i y Hi). lia.
    + injection Hi as <- _. lia.
Qed.

(* ------------------------------------------------------------------ the state invariant *)
Record DInv (s : dstate) (tr : list dev) : Prop := mkDI {
  di_q : QInv (d_queue s) (d_nsend s) tr;
  di_idle : d_conn s = true -> d_parked s = 0%nat -> d_owed s = false -> d_queue s = [];
  di_cap : (length (d_queue s) <= capacity)%nat }.

Lemma dinv_init c : DInv (dinit c) [].
Proof. constructor; cbn; [apply qinv_init|reflexivity|lia]. Qed.

Lemma dloop_rest_len bp now q : let '(evs, rest, p) := dloop bp now q in (length rest <= length q)%nat.
Proof.
  destruct (dloop_spec bp now q) as [pre H]. destruct (dloop bp now q) as [[evs rest] p].
  destruct H as [-> _]. rewrite app_length. lia.
Qed.

Lemma dloop_idle bp now q : let '(evs, rest, p) := dloop bp now q in p = false -> rest = [].
Proof.
  destruct (dloop_spec bp now q) as [pre H]. destruct (dloop bp now q) as [[evs rest] p]. now destruct H as [_ [_ [H _]]].
Qed.

Lemma dloop_nobp now q : let '(evs, rest, p) := dloop false now q in rest = [].
Proof.
  destruct (dloop_spec false now q) as [pre H]. destruct (dloop false now q) as [[evs rest] p].
  destruct H as [_ [_ [H1 H2]]]. apply H1, H2. reflexivity.
Qed.

Lemma filter_len {A} (f : A -> bool) l : (length (filter f l) <= length l)%nat.
Proof. induction l as [|x l IH]; cbn; [lia|]. destruct (f x); cbn; lia. Qed.

Lemma dstep_inv s tr o s' evs : DInv s tr -> dstep s o = Some (s', evs) -> DInv s' (tr ++ evs).
Proof.
  intros [Q Idle Cap] H. destruct o as [r life|dt|[|]| | | |]; cbn [dstep] in H.
  - (* send *)
    pose proof (qinv_purge (d_now s) _ _ _ Q) as Q1.
    destruct (capacity <=? length (filter (unexpired (d_now s)) (d_queue s)))%nat eqn:Full.
    + injection H as <- <-. rewrite app_assoc. constructor; cbn.
      * now apply qinv_refused.
      * intros C P O. rewrite (Idle C P O). reflexivity.
      * pose proof (filter_len (unexpired (d_now s)) (d_queue s)). lia.
    + apply Nat.leb_gt in Full.
      pose proof (qinv_accept _ _ _ 0%nat EncOk 0 r (d_now s + life) Q1) as Q2.
      destruct (d_conn s) eqn:C.
      * pose proof (qinv_loop (d_bp s) (d_now s) _ _ _ Q2) as Q3.
        pose proof (dloop_rest_len (d_bp s) (d_now s) (filter (unexpired (d_now s)) (d_queue s) ++
                      [mkEntry (d_nsend s) 0 EncOk 0 r (d_now s + life)])) as L.
        pose proof (dloop_idle (d_bp s) (d_now s) (filter (unexpired (d_now s)) (d_queue s) ++
                      [mkEntry (d_nsend s) 0 EncOk 0 r (d_now s + life)])) as I.
        destruct (dloop (d_bp s) (d_now s) _) as [[ev2 rest] p]. injection H as <- <-.
        replace (tr ++ purge_evs (d_now s) (d_queue s) ++ DAccept (d_nsend s) (d_now s + life) :: ev2)
          with (((tr ++ purge_evs (d_now s) (d_queue s)) ++ [DAccept (d_nsend s) (d_now s + life)]) ++ ev2)
          by (rewrite <- !app_assoc; reflexivity).
        constructor; cbn.
        -- exact Q3.
        -- intros _ P _. apply I. destruct p; [lia|reflexivity].
        -- rewrite app_length in L. cbn in L. lia.
      * injection H as <- <-. rewrite app_assoc. constructor; cbn.
        -- exact Q2.
        -- discriminate.
        -- rewrite app_length. cbn. lia.
  - (* clock *)
    destruct (dt <? 0); [discriminate|]. injection H as <- <-. rewrite app_nil_r. constructor; assumption.
  - (* transport pauses *)
    injection H as <- <-. rewrite app_nil_r. constructor; assumption.
  - (* transport resumes *)
    destruct (d_parked s) eqn:P.
    + injection H as <- <-. rewrite app_nil_r. constructor; cbn; assumption.
    + pose proof (qinv_loop false (d_now s) _ _ _ Q) as Q3. pose proof (dloop_nobp (d_now s) (d_queue s)) as E.
      destruct (dloop false (d_now s) (d_queue s)) as [[ev2 rest] p]. injection H as <- <-. subst rest.
      constructor; cbn; [exact Q3|reflexivity|lia].
  - (* link up *)
    destruct (d_conn s) eqn:C; [discriminate|].
    pose proof (qinv_loop (d_bp s) (d_now s) _ _ _ Q) as Q3.
    pose proof (dloop_rest_len (d_bp s) (d_now s) (d_queue s)) as L.
    pose proof (dloop_idle (d_bp s) (d_now s) (d_queue s)) as I.
    destruct (dloop (d_bp s) (d_now s) (d_queue s)) as [[ev2 rest] p]. injection H as <- <-.
    constructor; cbn; [exact Q3| |lia]. intros _ P _. apply I. destruct p; [discriminate|reflexivity].
  - (* connected, notification running *)
    destruct (d_conn s) eqn:C; [discriminate|]. injection H as <- <-. rewrite app_nil_r.
    constructor; cbn; [exact Q|discriminate|exact Cap].
  - (* the flush of _connect *)
    destruct (d_owed s) eqn:O; [|discriminate].
    pose proof (qinv_loop (d_bp s) (d_now s) _ _ _ Q) as Q3.
    pose proof (dloop_rest_len (d_bp s) (d_now s) (d_queue s)) as L.
    pose proof (dloop_idle (d_bp s) (d_now s) (d_queue s)) as I.
    destruct (dloop (d_bp s) (d_now s) (d_queue s)) as [[ev2 rest] p]. injection H as <- <-.
    constructor; cbn; [exact Q3| |lia]. intros _ P _. apply I. destruct p; [lia|reflexivity].
  - (* link down *)
    destruct (d_owed s); [discriminate|]. destruct (d_parked s); [|discriminate]. injection H as <- <-. rewrite app_nil_r.
    constructor; cbn; try assumption. discriminate.
Qed.

Lemma drun_inv ops : forall s tr s' evs, DInv s tr -> drun s ops = Some (s', evs) -> DInv s' (tr ++ evs).
Proof.
  induction ops as [|o r IH]; intros s tr s' evs I H; cbn in H.
  - injection H as <- <-. now rewrite app_nil_r.
  - destruct (dstep s o) as [[s1 e1]|] eqn:E; [|discriminate].
    destruct (drun s1 r) as [[s2 e2]|] eqn:R; [|discriminate]. injection H as <- <-.
    rewrite app_assoc. eapply IH; [|exact R]. eapply dstep_inv; eassumption.
Qed.

(* ------------------------------------------------------------------ the statements *)
Lemma ss_nodup l : StronglySorted lt l -> NoDup l.
Proof.
  induction 1 as [|x l S IH F]; constructor; [|exact IH]. intros Hin. rewrite Forall_forall in F. specialize (F x Hin). lia.
Qed.

Theorem drain_order c ops s tr : drun (dinit c) ops = Some (s, tr) -> StronglySorted lt (written tr).
Proof. intros H. pose proof (drun_inv ops _ [] _ _ (dinv_init c) H) as [Q _ _]. exact (q_wsorted _ _ _ Q). Qed.

Theorem drain_once c ops s tr : drun (dinit c) ops = Some (s, tr) -> NoDup (written tr).
Proof. intros H. apply ss_nodup. eapply drain_order; eassumption. Qed.

Theorem drain_expiry c ops s tr i t :
  drun (dinit c) ops = Some (s, tr) -> In (DWrote i t) tr -> exists x, In (DAccept i x) tr /\ t < x.
Proof. intros H. pose proof (drun_inv ops _ [] _ _ (dinv_init c) H) as [Q _ _]. exact (q_wrote _ _ _ Q i t). Qed.

Theorem drain_complete c ops s tr :
  drun (dinit c) ops = Some (s, tr) -> d_conn s = true -> d_parked s = 0%nat -> d_owed s = false ->
  forall i x, In (DAccept i x) tr -> (exists t, In (DWrote i t) tr) \/ (exists t, In (DDrop i t) tr /\ x <= t).
Proof.
  intros H C P O i x Hi. pose proof (drun_inv ops _ [] _ _ (dinv_init c) H) as [Q Idle _]. cbn in Q.
  destruct (q_done _ _ _ Q i x Hi) as [W|[D|[e [He _]]]]; [now left|now right|].
  rewrite (Idle C P O) in He. contradiction.
Qed.

Theorem drain_bound c ops s tr : drun (dinit c) ops = Some (s, tr) -> (length (d_queue s) <= 10)%nat.
Proof. intros H. pose proof (drun_inv ops _ [] _ _ (dinv_init c) H) as [_ _ Cap]. exact Cap. Qed.

