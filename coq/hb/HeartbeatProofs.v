(* HeartbeatProofs.v — period, detection and quietness of the heartbeat model. *)
From Coq Require Import ZArith List Bool Lia.
From PV Require Import hb.Heartbeat.
Import ListNotations.
Open Scope Z_scope.

Section Proofs.
  Variables interval timeout : Z.
  Hypothesis Hi : 0 < interval.
  Hypothesis Ht : 0 < timeout.
  Notation hstep := (hstep interval timeout).
  Notation hrun := (hrun interval timeout).

  Definition valid_hop (o : hop) : bool := match o with HAdv dt _ => 0 <=? dt | _ => true end.

  (* ---------------------------------------------------------------- invariant *)
  (* t0: the instant of start() *)
  Record HInv (t0 : Z) (s : hstate) : Prop := {
    hi_period : exists k, 1 <= k /\ h_next s = t0 + k * interval;
    hi_next : h_now s <= h_next s;
    hi_dead : h_now s <= h_dead s <= h_now s + timeout;
    hi_t0 : t0 <= h_now s }.

  Lemma start_inv s c : h_run s = false ->
    HInv (h_now s) (fst (hstep s (HStart c))).
  Proof.
    intros Hr. cbn. rewrite Hr. cbn. constructor; cbn; try lia. exists 1. lia.
  Qed.

  Lemma step_inv t0 s o : HInv t0 s -> h_run s = true -> valid_hop o = true ->
    HInv t0 (fst (hstep s o)).
  Proof.
    intros [[k [Hk1 Hk]] Hn Hd H0] Hr Hv. destruct o; cbn in *.
    - rewrite Hr. cbn. constructor; eauto.
    - constructor; cbn; eauto.
    - rewrite Hr. cbn. constructor; cbn; eauto; lia.
    - apply Z.leb_le in Hv. rewrite Hr. cbn [negb].
      destruct ((h_next s <=? h_dead s) && (h_next s <=? h_now s + dt)) eqn:E1.
      + apply andb_prop in E1 as [A B]. apply Z.leb_le in A, B. cbn.
        constructor; cbn; try lia. exists (k + 1). lia.
      + destruct ((h_dead s <? h_next s) && (h_dead s <=? h_now s + dt)) eqn:E2.
        * apply andb_prop in E2 as [A B]. apply Z.ltb_lt in A. apply Z.leb_le in B. cbn.
          constructor; cbn; try lia. exists k. lia.
        * cbn. apply andb_false_iff in E1, E2.
          assert (h_now s + dt <= h_dead s /\ h_now s + dt <= h_next s) as [P Q].
          { destruct E1 as [E1|E1], E2 as [E2|E2];
              try apply Z.leb_gt in E1; try apply Z.ltb_ge in E2; try apply Z.leb_gt in E2; lia. }
          constructor; cbn; try lia. exists k; lia.
  Qed.

  (* ------------------------------------------------------------------- period *)
  (* a heartbeat is handed to the socket only at an instant t0 + k * interval *)
  Lemma step_sends t0 s o t : HInv t0 s -> h_run s = true ->
    In (HSend t) (snd (hstep s o)) -> exists k, 0 <= k /\ t = t0 + k * interval.
  Proof.
    intros [[k [Hk1 Hk]] Hn Hd H0] Hr Hin. destruct o; cbn in Hin.
    - rewrite Hr in Hin. destruct Hin.
    - destruct Hin.
    - rewrite Hr in Hin. destruct Hin.
    - rewrite Hr in Hin. cbn [negb] in Hin.
      destruct ((h_next s <=? h_dead s) && (h_next s <=? h_now s + dt)).
      + cbn in Hin. apply in_app_or in Hin as [Hin|[Hin|[]]]; [|discriminate].
        destruct connected; [|destruct Hin]. destruct Hin as [Hin|[]]. inversion Hin; subst.
        exists k. lia.
      + destruct ((h_dead s <? h_next s) && (h_dead s <=? h_now s + dt)); cbn in Hin.
        * apply in_app_or in Hin as [Hin|[Hin|[]]]; [|discriminate].
          destruct connected; [|destruct Hin]. destruct Hin as [Hin|[]]. discriminate.
        * destruct Hin as [Hin|[]]. discriminate.
  Qed.

  (* ... and at each such instant reached while connected one IS sent *)
  Lemma adv_sends s dt : h_run s = true ->
    h_next s <= h_dead s -> h_next s <= h_now s + dt ->
    hstep s (HAdv dt true) =
    (mkH true (h_next s + interval) (h_dead s) (h_next s), [HSend (h_next s); HTime (h_next s)]).
  Proof.
    intros Hr A B. cbn. rewrite Hr. cbn [negb].
    assert ((h_next s <=? h_dead s) && (h_next s <=? h_now s + dt) = true) as ->
      by (apply andb_true_intro; split; apply Z.leb_le; lia).
    reflexivity.
  Qed.

  (* ------------------------------------------------------------------ arming *)
  Lemma start_arms s c : h_run s = false ->
    h_dead (fst (hstep s (HStart c))) = h_now s + timeout /\
    snd (hstep s (HStart c)) = (if c then [HSend (h_now s)] else []).
  Proof. intros Hr. cbn. rewrite Hr. cbn. auto. Qed.

  Lemma resp_arms s : h_run s = true ->
    h_dead (fst (hstep s HResp)) = h_now s + timeout /\ snd (hstep s HResp) = [].
  Proof. intros Hr. cbn. rewrite Hr. cbn. auto. Qed.

  (* the deadline passes: reset exactly then (if connected), and monitor again at once *)
  Lemma adv_deadline s dt c : h_run s = true ->
    h_dead s < h_next s -> h_dead s <= h_now s + dt ->
    hstep s (HAdv dt c) =
    (mkH true (h_next s) (h_dead s + timeout) (h_dead s),
     (if c then [HReset (h_dead s)] else []) ++ [HTime (h_dead s)]).
  Proof.
    intros Hr A B. cbn. rewrite Hr. cbn [negb].
    assert ((h_next s <=? h_dead s) && (h_next s <=? h_now s + dt) = false) as ->
      by (apply andb_false_iff; left; apply Z.leb_gt; lia).
    assert ((h_dead s <? h_next s) && (h_dead s <=? h_now s + dt) = true) as ->
      by (apply andb_true_intro; split; [apply Z.ltb_lt|apply Z.leb_le]; lia).
    reflexivity.
  Qed.

  (* ---------------------------------------------------------------- detection *)
  Definition silent_connected (o : hop) : bool :=
    match o with HAdv dt c => (0 <=? dt) && c | _ => false end.

  (* No response, no stop, connected whenever a timer fires: time cannot pass the
     deadline D without the reset being emitted at exactly D. *)
  Lemma detects_aux ops : forall s,
    h_run s = true -> h_now s <= h_dead s -> h_now s <= h_next s ->
    forallb silent_connected ops = true ->
    let '(s', tr) := hrun s ops in
    In (HReset (h_dead s)) tr \/
    (h_dead s' = h_dead s /\ h_now s' <= h_dead s /\ h_run s' = true /\ h_now s' <= h_next s').
  Proof.
    induction ops as [|o ops IH]; intros s Hr Hd Hn Hall; cbn [Heartbeat.hrun].
    - right. auto.
    - cbn in Hall. apply andb_prop in Hall as [Ho Hall].
      destruct o; try discriminate. cbn in Ho. apply andb_prop in Ho as [Hdt Hc].
      apply Z.leb_le in Hdt. subst connected.
      destruct (hstep s (HAdv dt true)) as [s1 e1] eqn:E1.
      destruct (hrun s1 ops) as [s2 e2] eqn:E2.
      cbn in E1. rewrite Hr in E1. cbn [negb] in E1.
      destruct ((h_next s <=? h_dead s) && (h_next s <=? h_now s + dt)) eqn:C1.
      + apply andb_prop in C1 as [A B]. apply Z.leb_le in A, B. inversion E1; subst. clear E1.
        match type of E2 with Heartbeat.hrun _ _ ?x _ = _ => specialize (IH x eq_refl ltac:(cbn; lia) ltac:(cbn; lia) Hall) end. rewrite E2 in IH. cbn in IH.
        destruct IH as [IH|IH]; [left; apply in_or_app; now right|right; exact IH].
      + destruct ((h_dead s <? h_next s) && (h_dead s <=? h_now s + dt)) eqn:C2.
        * inversion E1; subst. left. cbn. now left.
        * inversion E1; subst. clear E1. apply andb_false_iff in C1, C2.
          assert (h_now s + dt <= h_dead s /\ h_now s + dt <= h_next s) as [P Q].
          { destruct C1 as [C1|C1], C2 as [C2|C2];
              try apply Z.leb_gt in C1; try apply Z.ltb_ge in C2; try apply Z.leb_gt in C2; lia. }
          match type of E2 with Heartbeat.hrun _ _ ?x _ = _ => specialize (IH x eq_refl ltac:(cbn; lia) ltac:(cbn; lia) Hall) end. rewrite E2 in IH. cbn in IH.
          destruct IH as [IH|IH]; [left; apply in_or_app; now right|right; exact IH].
  Qed.

  Theorem detects s ops :
    h_run s = true -> h_now s <= h_dead s -> h_now s <= h_next s ->
    forallb silent_connected ops = true ->
    h_dead s < h_now (fst (hrun s ops)) ->
    In (HReset (h_dead s)) (snd (hrun s ops)).
  Proof.
    intros Hr Hd Hn Hall Hpass. pose proof (detects_aux ops s Hr Hd Hn Hall) as H.
    destruct (hrun s ops) as [s' tr]. cbn in *. destruct H as [H|[_ [H _]]]; [exact H|lia].
  Qed.

  (* ---------------------------------------------------------------- quietness *)
  (* one round starting right after a heartbeat was sent at instant s_now: the console
     answers after d, then the client sleeps out the rest of the interval *)
  Definition round (d : Z) : list hop := [HAdv d true; HResp; HAdv (interval - d) true].

  Definition no_reset (tr : list hev) : Prop := forall t, ~ In (HReset t) tr.

  (* state right after a heartbeat at instant now: next = now + interval and the deadline
     leaves room for an answer arriving up to (timeout - interval) later *)
  Definition after_send (s : hstate) : Prop :=
    h_run s = true /\ h_next s = h_now s + interval /\ h_now s + (timeout - interval) <= h_dead s.

  Lemma round_quiet s d : after_send s -> interval < timeout ->
    0 <= d -> d < timeout - interval -> d < interval ->
    let '(s', tr) := hrun s (round d) in
    after_send s' /\ h_now s' = h_now s + interval /\ no_reset tr /\
    tr = [HTime (h_now s + d); HSend (h_now s + interval); HTime (h_now s + interval)].
  Proof.
    intros [Hr [Hn Hd]] Hit Hd0 Hd1 Hd2. destruct s as [r n dd nw]. cbn in Hr, Hn, Hd. subst r n.
    unfold round, after_send. cbn -[Z.add Z.sub Z.leb Z.ltb].
    repeat match goal with
    | |- context [?a <=? ?b] => destruct (Z.leb_spec a b); try lia; cbn -[Z.add Z.sub Z.leb Z.ltb]
    | |- context [?a <? ?b] => destruct (Z.ltb_spec a b); try lia; cbn -[Z.add Z.sub Z.leb Z.ltb]
    end.
    all: repeat split; try lia; try reflexivity.
    all: intros t [Hx|[Hx|[Hx|[]]]]; discriminate.
  Qed.

  Theorem quiet ds : forall s, after_send s -> interval < timeout ->
    Forall (fun d => 0 <= d /\ d < timeout - interval /\ d < interval) ds ->
    no_reset (snd (hrun s (concat (map round ds)))).
  Proof.
    induction ds as [|d ds IH]; intros s Ha Hit Hf; cbn [map concat].
    - intros t H. destruct H.
    - inversion Hf as [|? ? [D0 [D1 D2]] Hf']; subst.
      pose proof (round_quiet s d Ha Hit D0 D1 D2) as R.
      destruct (hrun s (round d)) as [s1 tr1] eqn:E1. destruct R as [Ha1 [_ [Hq1 _]]].
      specialize (IH s1 Ha1 Hit Hf').
      assert (Happ : forall a b s0, hrun s0 (a ++ b) =
                let '(sa, ta) := hrun s0 a in let '(sb, tb) := hrun sa b in (sb, ta ++ tb)).
      { induction a as [|o a IHa]; intros b s0; cbn [app Heartbeat.hrun].
        - destruct (hrun s0 b); reflexivity.
        - destruct (hstep s0 o) as [s' e']. rewrite IHa.
          destruct (hrun s' a) as [sa ta]. destruct (hrun sa b) as [sb tb]. now rewrite app_assoc. }
      rewrite Happ, E1. destruct (hrun s1 (concat (map round ds))) as [s2 tr2]. cbn in *.
      intros t H. apply in_app_or in H as [H|H]; [exact (Hq1 t H)|exact (IH t H)].
  Qed.

  Lemma start_after_send s : h_run s = false -> interval < timeout ->
    after_send (fst (hstep s (HStart true))).
  Proof. intros Hr Hit. cbn. rewrite Hr. cbn. unfold after_send; cbn. repeat split; lia. Qed.
End Proofs.
