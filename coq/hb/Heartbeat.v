(* Heartbeat.v — model of pyairtouch/comms/heartbeat.py (HeartbeatManager).
   Time in ticks (Z).  interval / timeout are parameters of every definition.
   No proofs here. *)
From Coq Require Import ZArith List Bool.
Import ListNotations.
Open Scope Z_scope.

Record hstate := mkH {
  h_run : bool;
  h_next : Z;      (* instant of the next heartbeat (sleep of the heartbeat loop) *)
  h_dead : Z;      (* deadline of the response monitor (asyncio.timeout) *)
  h_now : Z }.

Inductive hop :=
| HStart (connected : bool)          (* start(); is the socket connected right now? *)
| HStop
| HResp                              (* a message matching response_match is received *)
| HAdv (dt : Z) (connected : bool).  (* time passes up to the next heartbeat timer;
                                        connectivity at the instant a timer fires *)

Inductive hev :=
| HSend (t : Z)      (* heartbeat message handed to the socket *)
| HReset (t : Z)     (* reset_connection() *)
| HTime (t : Z).

Definition hinit : hstate := mkH false 0 0 0.

Section Params.
  Variables interval timeout : Z.

  Definition hstep (s : hstate) (o : hop) : hstate * list hev :=
    match o with
    | HStart c =>
      if h_run s then (s, [])
      else (mkH true (h_now s + interval) (h_now s + timeout) (h_now s),
            if c then [HSend (h_now s)] else [])
    | HStop => (mkH false (h_next s) (h_dead s) (h_now s), [])
    | HResp =>
      if h_run s then (mkH true (h_next s) (h_now s + timeout) (h_now s), []) else (s, [])
    | HAdv dt c =>
      let horizon := h_now s + dt in
      if negb (h_run s) then (mkH false (h_next s) (h_dead s) horizon, [HTime horizon])
      else if (h_next s <=? h_dead s) && (h_next s <=? horizon) then
        (* the heartbeat sleep ends: send if connected, sleep again *)
        (mkH true (h_next s + interval) (h_dead s) (h_next s),
         (if c then [HSend (h_next s)] else []) ++ [HTime (h_next s)])
      else if (h_dead s <? h_next s) && (h_dead s <=? horizon) then
        (* the response deadline passes: reset if connected, monitor again *)
        (mkH true (h_next s) (h_dead s + timeout) (h_dead s),
         (if c then [HReset (h_dead s)] else []) ++ [HTime (h_dead s)])
      else (mkH true (h_next s) (h_dead s) horizon, [HTime horizon])
    end.

  Fixpoint hrun (s : hstate) (ops : list hop) : hstate * list hev :=
    match ops with
    | [] => (s, [])
    | o :: r => let '(s1, e1) := hstep s o in let '(s2, e2) := hrun s1 r in (s2, e1 ++ e2)
    end.
End Params.
