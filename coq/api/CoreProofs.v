(* CoreProofs.v — facts about the generic client core (Core.v), for any record types:
   dictionaries, "latest report wins" (C10), who is notified of what (C12), the handshake
   (C09), refresh after reconnection (C14). *)
From Coq Require Import NArith ZArith List Bool Lia Arith.
From PV Require Import api.Core.
Import ListNotations.
Open Scope N_scope.

Section P.
  Variables ZS AS AB TD : Type.
  Variable zs_id : ZS -> N.
  Variable as_id : AS -> N.
  Variable ab_id : AB -> N.
  Variable td_id : TD -> N.
  Variable zs_eqb : ZS -> ZS -> bool.
  Variable as_eqb : AS -> AS -> bool.
  Variable td_eqb : TD -> TD -> bool.
  Variable as_has_error : AS -> bool.
  Variable zs_init : N -> ZS.
  Variable as_init : N -> AS.
  Variable td_init : N -> TD.
  Variable assign : list AB -> list N -> AB -> option (list N).

  Notation client := (client ZS AS AB TD).
  Notation aircon := (aircon AS AB TD).
  Notation zone := (zone ZS).
  Notation event := (event ZS AS AB TD).
  Notation on_event := (on_event ZS AS AB TD zs_id as_id ab_id td_id zs_eqb as_eqb td_eqb as_has_error zs_init as_init td_init assign).
  Notation run_events := (run_events ZS AS AB TD zs_id as_id ab_id td_id zs_eqb as_eqb td_eqb as_has_error zs_init as_init td_init assign).
  Notation proc_ac_status := (proc_ac_status ZS AS AB TD as_id as_eqb as_has_error).
  Notation proc_zone_status := (proc_zone_status ZS AS AB TD zs_id zs_eqb).
  Notation proc_timer := (proc_timer ZS AS AB TD td_id td_eqb).
  Notation update_ac_status := (update_ac_status AS AB TD as_eqb as_has_error).
  Notation update_zone := (update_zone ZS AS AB TD zs_eqb).
  Notation find_ac := (find_ac AS AB TD).
  Notation set_ac := (set_ac AS AB TD).
  Notation find_zone := (find_zone ZS).
  Notation set_zone := (set_zone ZS).

  (* ---------------------------------------------------------------- dictionaries *)
  Lemma find_set_ac_same acs (a : aircon) : find_ac (set_ac acs a) (a_id _ _ _ a) = Some a.
  Proof.
    induction acs as [|x acs IH]; cbn.
    - now rewrite N.eqb_refl.
    - destruct (a_id _ _ _ x =? a_id _ _ _ a) eqn:E; cbn; [now rewrite N.eqb_refl|]. now rewrite E.
  Qed.

  Lemma find_set_ac_other acs (a : aircon) id : id <> a_id _ _ _ a -> find_ac (set_ac acs a) id = find_ac acs id.
  Proof.
    intros H. induction acs as [|x acs IH]; cbn.
    - assert (a_id _ _ _ a =? id = false) as -> by (apply N.eqb_neq; congruence). reflexivity.
    - destruct (a_id _ _ _ x =? a_id _ _ _ a) eqn:E; cbn.
      + apply N.eqb_eq in E.
        assert (a_id _ _ _ a =? id = false) as -> by (apply N.eqb_neq; congruence).
        assert (a_id _ _ _ x =? id = false) as -> by (apply N.eqb_neq; congruence). reflexivity.
      + destruct (a_id _ _ _ x =? id); [reflexivity|exact IH].
  Qed.

  Lemma find_ac_id acs id (a : aircon) : find_ac acs id = Some a -> a_id _ _ _ a = id.
  Proof. intros H. apply find_some in H as [_ H]. now apply N.eqb_eq. Qed.

  Lemma find_set_zone_same zs (z : zone) : find_zone (set_zone zs z) (z_id _ z) = Some z.
  Proof.
    induction zs as [|x zs IH]; cbn.
    - now rewrite N.eqb_refl.
    - destruct (z_id _ x =? z_id _ z) eqn:E; cbn; [now rewrite N.eqb_refl|]. now rewrite E.
  Qed.

  Lemma find_set_zone_other zs (z : zone) id : id <> z_id _ z -> find_zone (set_zone zs z) id = find_zone zs id.
  Proof.
    intros H. induction zs as [|x zs IH]; cbn.
    - assert (z_id _ z =? id = false) as -> by (apply N.eqb_neq; congruence). reflexivity.
    - destruct (z_id _ x =? z_id _ z) eqn:E; cbn.
      + apply N.eqb_eq in E.
        assert (z_id _ z =? id = false) as -> by (apply N.eqb_neq; congruence).
        assert (z_id _ x =? id = false) as -> by (apply N.eqb_neq; congruence). reflexivity.
      + destruct (z_id _ x =? id); [reflexivity|exact IH].
  Qed.

  Lemma find_zone_id zs id (z : zone) : find_zone zs id = Some z -> z_id _ z = id.
  Proof. intros H. apply find_some in H as [_ H]. now apply N.eqb_eq. Qed.

  (* ---------------------------------------------------- latest report wins (C10) *)
  (* the most recent record about entity [id] in a list of records, [d] if there is none *)
  Definition latest {R} (rid : R -> N) (d : R) (id : N) (l : list R) : R :=
    fold_left (fun acc s => if rid s =? id then s else acc) l d.

  (* AC status: after processing a status message, every known AC holds the latest record
     addressed to it (or what it held before); unknown ids create nothing; ability, zone
     list, timer report and subscribers are untouched *)
  Lemma update_ac_status_fields (a : aircon) s :
    let a' := fst (update_ac_status a s) in
    a_id _ _ _ a' = a_id _ _ _ a /\ a_status _ _ _ a' = s /\ a_ability _ _ _ a' = a_ability _ _ _ a /\
    a_timer _ _ _ a' = a_timer _ _ _ a /\ a_zones _ _ _ a' = a_zones _ _ _ a /\
    a_subs _ _ _ a' = a_subs _ _ _ a /\ a_subs_state _ _ _ a' = a_subs_state _ _ _ a.
  Proof. unfold Core.update_ac_status. destruct (as_eqb (a_status _ _ _ a) s); cbn; repeat split; reflexivity. Qed.

  Definition same_but_status (a a' : aircon) : Prop :=
    a_id _ _ _ a' = a_id _ _ _ a /\ a_ability _ _ _ a' = a_ability _ _ _ a /\ a_timer _ _ _ a' = a_timer _ _ _ a /\
    a_zones _ _ _ a' = a_zones _ _ _ a /\ a_subs _ _ _ a' = a_subs _ _ _ a /\ a_subs_state _ _ _ a' = a_subs_state _ _ _ a.

  Lemma proc_ac_status_latest : forall l (c : client) id,
    (forall a, find_ac (c_acs _ _ _ _ c) id = Some a -> a_id _ _ _ a = as_id (a_status _ _ _ a)) ->
    match find_ac (c_acs _ _ _ _ c) id with
    | None => find_ac (c_acs _ _ _ _ (fst (proc_ac_status c l))) id = None
    | Some a => exists a', find_ac (c_acs _ _ _ _ (fst (proc_ac_status c l))) id = Some a' /\
                           a_status _ _ _ a' = latest as_id (a_status _ _ _ a) id l /\ same_but_status a a'
    end.
  Proof.
    induction l as [|s l IH]; intros c id Hid.
    - cbn. destruct (find_ac _ id) as [a|]; [|reflexivity]. exists a. repeat split; reflexivity.
    - cbn [Core.proc_ac_status]. destruct (find_ac (c_acs _ _ _ _ c) (as_id s)) as [b|] eqn:Fb.
      + destruct (update_ac_status b s) as [b' o1] eqn:U.
        pose proof (update_ac_status_fields b s) as F. rewrite U in F. cbn [fst] in F.
        destruct F as [Fid [Fst [Fab [Fti [Fzo [Fsu Fss]]]]]].
        destruct (proc_ac_status (with_acs _ _ _ _ c (set_ac (c_acs _ _ _ _ c) b')) l) as [c2 o2] eqn:R. cbn [fst].
        pose proof (find_ac_id _ _ _ Fb) as Hb.
        specialize (IH (with_acs _ _ _ _ c (set_ac (c_acs _ _ _ _ c) b')) id). rewrite R in IH. cbn [fst] in IH.
        unfold with_acs in IH. cbn [c_acs] in IH.
        destruct (N.eq_dec id (as_id s)) as [E|E].
        * subst id. rewrite Fb. rewrite <- Hb, <- Fid in IH. rewrite find_set_ac_same in IH.
          assert (Hpre : forall a, Some b' = Some a -> a_id _ _ _ a = as_id (a_status _ _ _ a)).
          { intros a Ha. injection Ha as <-. rewrite Fst, Fid. exact Hb. }
          destruct (IH Hpre) as [a' [F' [S' Sm]]]. rewrite Fid, Hb in F', S'.
          exists a'. split; [exact F'|]. split.
          -- rewrite S', Fst. unfold latest. cbn [fold_left]. rewrite N.eqb_refl. reflexivity.
          -- destruct Sm as [S1 [S2 [S3 [S4 [S5 S6]]]]]. repeat split; congruence.
        * rewrite find_set_ac_other in IH by (rewrite Fid, Hb; exact E).
          destruct (find_ac (c_acs _ _ _ _ c) id) as [a|] eqn:Fa.
          -- destruct (IH Hid) as [a' [F' [S' Sm]]]. exists a'. split; [exact F'|]. split; [|exact Sm].
             rewrite S'. unfold latest. cbn [fold_left]. assert (as_id s =? id = false) as -> by (apply N.eqb_neq; congruence). reflexivity.
          -- apply IH. intros a Ha. discriminate Ha.
      + (* unknown AC: ignored *)
        specialize (IH c id Hid).
        destruct (find_ac (c_acs _ _ _ _ c) id) as [a|] eqn:Fa; [|exact IH].
        destruct IH as [a' [F' [S' Sm]]]. exists a'. split; [exact F'|]. split; [|exact Sm].
        rewrite S'. unfold latest. cbn [fold_left].
        assert (as_id s =? id = false) as ->; [|reflexivity].
        apply N.eqb_neq. intros E. subst id. rewrite Fa in Fb. discriminate Fb.
  Qed.

  (* zone status: the same for zones *)
  Lemma update_zone_fields acs (z : zone) s :
    let z' := fst (update_zone acs z s) in
    z_id _ z' = z_id _ z /\ z_status _ z' = s /\ z_name _ z' = z_name _ z /\ z_subs _ z' = z_subs _ z.
  Proof. unfold Core.update_zone. destruct (zs_eqb (z_status _ z) s); cbn; repeat split; reflexivity. Qed.

  Lemma proc_zone_status_acs : forall l (c : client), c_acs _ _ _ _ (fst (proc_zone_status c l)) = c_acs _ _ _ _ c.
  Proof.
    induction l as [|s l IH]; intros c; [reflexivity|]. cbn [Core.proc_zone_status].
    destruct (find_zone (c_zones _ _ _ _ c) (zs_id s)) as [z|]; [|apply IH].
    destruct (update_zone (c_acs _ _ _ _ c) z s) as [z' o1].
    match goal with |- context [proc_zone_status ?c1 l] => specialize (IH c1); destruct (proc_zone_status c1 l) as [c2 o2] end.
    cbn [fst] in *. exact IH.
  Qed.

  Lemma proc_zone_status_latest : forall l (c : client) id,
    (forall z, find_zone (c_zones _ _ _ _ c) id = Some z -> z_id _ z = zs_id (z_status _ z)) ->
    match find_zone (c_zones _ _ _ _ c) id with
    | None => find_zone (c_zones _ _ _ _ (fst (proc_zone_status c l))) id = None
    | Some z => exists z', find_zone (c_zones _ _ _ _ (fst (proc_zone_status c l))) id = Some z' /\
                           z_status _ z' = latest zs_id (z_status _ z) id l /\
                           z_id _ z' = z_id _ z /\ z_name _ z' = z_name _ z /\ z_subs _ z' = z_subs _ z
    end.
  Proof.
    induction l as [|s l IH]; intros c id Hid.
    - cbn. destruct (find_zone _ id) as [z|]; [|reflexivity]. exists z. repeat split; reflexivity.
    - cbn [Core.proc_zone_status]. destruct (find_zone (c_zones _ _ _ _ c) (zs_id s)) as [b|] eqn:Fb.
      + destruct (update_zone (c_acs _ _ _ _ c) b s) as [b' o1] eqn:U.
        pose proof (update_zone_fields (c_acs _ _ _ _ c) b s) as F. rewrite U in F. cbn [fst] in F.
        destruct F as [Fid [Fst [Fna Fsu]]].
        match goal with |- context [proc_zone_status ?c1 l] => set (c1' := c1) end.
        destruct (proc_zone_status c1' l) as [c2 o2] eqn:R. cbn [fst].
        pose proof (find_zone_id _ _ _ Fb) as Hb.
        specialize (IH c1' id). rewrite R in IH. cbn [fst] in IH. subst c1'. cbn [c_zones] in IH.
        destruct (N.eq_dec id (zs_id s)) as [E|E].
        * subst id. rewrite Fb. rewrite <- Hb, <- Fid in IH. rewrite find_set_zone_same in IH.
          assert (Hpre : forall z, Some b' = Some z -> z_id _ z = zs_id (z_status _ z)).
          { intros z Hz. injection Hz as <-. rewrite Fst, Fid. exact Hb. }
          destruct (IH Hpre) as [z' [F' [S' [I' [N' U']]]]]. rewrite Fid, Hb in F', S'.
          exists z'. split; [exact F'|]. split.
          -- rewrite S', Fst. unfold latest. cbn [fold_left]. rewrite N.eqb_refl. reflexivity.
          -- repeat split; congruence.
        * rewrite find_set_zone_other in IH by (rewrite Fid, Hb; exact E).
          destruct (find_zone (c_zones _ _ _ _ c) id) as [z|] eqn:Fz.
          -- destruct (IH Hid) as [z' [F' [S' R']]]. exists z'. split; [exact F'|]. split; [|exact R'].
             rewrite S'. unfold latest. cbn [fold_left]. assert (zs_id s =? id = false) as -> by (apply N.eqb_neq; congruence). reflexivity.
          -- apply IH. intros z Hz. discriminate Hz.
      + specialize (IH c id Hid).
        destruct (find_zone (c_zones _ _ _ _ c) id) as [z|] eqn:Fz; [|exact IH].
        destruct IH as [z' [F' [S' R']]]. exists z'. split; [exact F'|]. split; [|exact R'].
        rewrite S'. unfold latest. cbn [fold_left].
        assert (zs_id s =? id = false) as ->; [|reflexivity].
        apply N.eqb_neq. intros E. subst id. rewrite Fz in Fb. discriminate Fb.
  Qed.

  (* ------------------------------------------------ who hears about what (C12) *)
  Hypothesis zs_eqb_refl : forall s, zs_eqb s s = true.
  Hypothesis as_eqb_refl : forall s, as_eqb s s = true.
  Hypothesis td_eqb_refl : forall s, td_eqb s s = true.

  (* an identical report: nobody is called *)
  Lemma zone_no_echo acs (z : zone) : snd (update_zone acs z (z_status _ z)) = [].
  Proof. unfold Core.update_zone. now rewrite zs_eqb_refl. Qed.
  Lemma ac_status_no_echo (a : aircon) : snd (update_ac_status a (a_status _ _ _ a)) = [].
  Proof. unfold Core.update_ac_status. now rewrite as_eqb_refl. Qed.
  Lemma ac_timer_no_echo (a : aircon) : snd (update_ac_timer AS AB TD td_eqb a (a_timer _ _ _ a)) = [].
  Proof. unfold update_ac_timer. now rewrite td_eqb_refl. Qed.

  (* a changed zone report: every subscriber of the zone once with the zone id, every general
     subscriber of each AC that lists the zone once with the AC id - and nobody else: in
     particular no AC-state-only subscriber *)
  Lemma zone_change_notifies acs (z : zone) s : zs_eqb (z_status _ z) s = false ->
    snd (update_zone acs z s) =
      map (fun sub => ONotifyZone sub (z_id _ z)) (z_subs _ z) ++
      concat (map (fun a => map (fun sub => ONotifyAc sub (a_id _ _ _ a)) (a_subs _ _ _ a)) (owners AS AB TD acs (z_id _ z))).
  Proof. intros H. unfold Core.update_zone. now rewrite H. Qed.

  (* a changed AC status: general and AC-state-only subscribers, each once (set union), plus
     the error-text request while an error code is present *)
  Lemma ac_change_notifies (a : aircon) s : as_eqb (a_status _ _ _ a) s = false ->
    snd (update_ac_status a s) =
      (if as_has_error s then [OSendReq (RErrInfo (a_id _ _ _ a))] else []) ++
      map (fun sub => ONotifyAc sub (a_id _ _ _ a)) (ac_all_subs AS AB TD a).
  Proof. intros H. unfold Core.update_ac_status. now rewrite H. Qed.

  (* subscriber sets *)
  Lemma add_sub_in l s : In s (add_sub l s).
  Proof.
    unfold add_sub. destruct (existsb (Nat.eqb s) l) eqn:E.
    - apply existsb_exists in E as [x [Hx Ex]]. apply Nat.eqb_eq in Ex. now subst.
    - apply in_or_app. right. now left.
  Qed.
  Lemma add_sub_idem l s : add_sub (add_sub l s) s = add_sub l s.
  Proof.
    unfold add_sub at 1. assert (existsb (Nat.eqb s) (add_sub l s) = true) as ->; [|reflexivity].
    apply existsb_exists. exists s. split; [apply add_sub_in|apply Nat.eqb_refl].
  Qed.
  Lemma del_sub_out l s : ~ In s (del_sub l s).
  Proof. unfold del_sub. intros H. apply filter_In in H as [_ H]. now rewrite Nat.eqb_refl in H. Qed.
  Lemma nodup_nat_once (l : list nat) : NoDup (nodup_nat l).
  Proof.
    unfold nodup_nat. assert (G : forall l acc, NoDup acc -> NoDup (fold_left (fun acc x => if existsb (Nat.eqb x) acc then acc else acc ++ [x]) l acc)).
    { clear l. induction l as [|x l IH]; intros acc H; [exact H|]. cbn [fold_left]. apply IH.
      destruct (existsb (Nat.eqb x) acc) eqn:E; [exact H|].
      apply NoDup_app_remove_l with (l := []) || idtac.
      rewrite <- (rev_involutive (acc ++ [x])). apply NoDup_rev. rewrite rev_app_distr. cbn. constructor.
      - intros Hin. apply in_rev in Hin. assert (existsb (Nat.eqb x) acc = true); [|congruence].
        apply existsb_exists. exists x. split; [exact Hin|apply Nat.eqb_refl].
      - now apply NoDup_rev. }
    apply G. constructor.
  Qed.

  (* ------------------------------------------------------------- handshake (C09) *)
  Notation proc_names := (proc_names ZS AS AB TD zs_init).
  Notation proc_ability_from := (proc_ability_from AS AB TD ab_id as_init td_init assign).
  Notation finish_init := (finish_init ZS AS AB TD).
  Notation set_state := (set_state ZS AS AB TD).
  Notation with_acs := (with_acs ZS AS AB TD).

  (* a frame that is not the answer awaited in handshake state [st] (and not an error text,
     which is accepted at any time): unknown types, unsolicited status, duplicates of
     earlier answers, echoes not addressed to the client *)
  Definition noise_for (st : astate) (e : event) : bool :=
    match e, st with
    | EvErrInfo _ _ _ _ _ _, _ => false
    | _, Connected => false
    | EvVersion _ _ _ _ _ _, InitVersion => false
    | EvNames _ _ _ _ _, InitNames => false
    | EvNamesEcho _ _ _ _ true, InitNames => false
    | EvAbility _ _ _ _ _, InitAbility => false
    | EvAcStatus _ _ _ _ _, InitAcStatus => false
    | EvTimer _ _ _ _ _, InitTimer => false
    | EvZoneStatus _ _ _ _ _, InitZoneStatus => false
    | EvZoneStatusEcho _ _ _ _ true, InitZoneStatus => false
    | _, _ => true
    end.

  Lemma noise_ignored (c : client) e : noise_for (c_state _ _ _ _ c) e = true -> on_event c e = (c, []).
  Proof.
    unfold noise_for, Core.on_event. destruct e as [u vs|l|b|l|l|l|l|b|ac info|]; destruct (c_state _ _ _ _ c);
      try destruct b; intros H; try discriminate H; reflexivity.
  Qed.

  Lemma noise_list_ignored : forall es (c : client),
    forallb (noise_for (c_state _ _ _ _ c)) es = true -> run_events c es = (c, []).
  Proof.
    induction es as [|e es IH]; intros c H; [reflexivity|]. cbn in H. apply andb_prop in H as [He Hes].
    cbn [Core.run_events]. rewrite (noise_ignored c e He). rewrite (IH c Hes). reflexivity.
  Qed.

  Lemma run_events_app : forall a b (c : client),
    run_events c (a ++ b) = let '(c1, o1) := run_events c a in let '(c2, o2) := run_events c1 b in (c2, o1 ++ o2).
  Proof.
    induction a as [|e a IH]; intros b c.
    - cbn. destruct (run_events c b). reflexivity.
    - cbn [app Core.run_events]. destruct (on_event c e) as [c1 o1]. rewrite IH.
      destruct (run_events c1 a) as [c2 o2]. destruct (run_events c2 b) as [c3 o3]. now rewrite app_assoc.
  Qed.

  (* noise, then the awaited answer: the client is where the answer alone would have put it *)
  Lemma noise_then (c : client) ns e :
    forallb (noise_for (c_state _ _ _ _ c)) ns = true -> run_events c (ns ++ [e]) = on_event c e.
  Proof.
    intros H. rewrite run_events_app, (noise_list_ignored ns c H). cbn [Core.run_events].
    destruct (on_event c e) as [c1 o1]. now rewrite app_nil_r.
  Qed.

  (* the six steps, one at a time, whatever noise is interleaved *)
  Definition hs_version (c : client) u vs : client :=
    mkClient _ _ _ _ InitNames (u, vs) (c_zones _ _ _ _ c) (c_acs _ _ _ _ c) (c_initialised _ _ _ _ c) (c_subs _ _ _ _ c)
             (c_hb_started _ _ _ _ c) (c_uses_poll _ _ _ _ c).

  Theorem handshake_steps (c0 : client) n0 u vs n1 names n2 abl n3 sl n4 tl n5 zl acs :
    c_state _ _ _ _ c0 = InitVersion ->
    forallb (noise_for InitVersion) n0 = true -> forallb (noise_for InitNames) n1 = true ->
    forallb (noise_for InitAbility) n2 = true -> forallb (noise_for InitAcStatus) n3 = true ->
    forallb (noise_for InitTimer) n4 = true -> forallb (noise_for InitZoneStatus) n5 = true ->
    let c1 := hs_version c0 u vs in
    let c2 := set_state (proc_names c1 names) InitAbility in
    proc_ability_from abl (map (z_id _) (c_zones _ _ _ _ c2)) (c_acs _ _ _ _ c2) abl = (acs, true) ->
    let c3 := set_state (with_acs c2 acs) InitAcStatus in
    let '(c4, o4) := proc_ac_status c3 sl in
    let '(c5, o5) := proc_timer (set_state c4 InitTimer) tl in
    let '(c6, o6) := proc_zone_status (set_state c5 InitZoneStatus) zl in
    let '(c7, o7) := finish_init c6 in
    run_events c0 (n0 ++ [EvVersion _ _ _ _ u vs] ++ n1 ++ [EvNames _ _ _ _ names] ++ n2 ++ [EvAbility _ _ _ _ abl] ++
                   n3 ++ [EvAcStatus _ _ _ _ sl] ++ n4 ++ [EvTimer _ _ _ _ tl] ++ n5 ++ [EvZoneStatus _ _ _ _ zl])
    = (c7, [OSendReq RNames] ++ [OSendReq RAbility] ++ [OSendReq RAcStatus] ++ (o4 ++ [OSendReq RTimer]) ++
           (o5 ++ [OSendReq RZoneStatus]) ++ (o6 ++ o7)).
  Proof.
    intros S0 N0 N1 N2 N3 N4 N5 c1 c2 Hab c3.
    destruct (proc_ac_status c3 sl) as [c4 o4] eqn:E4.
    destruct (proc_timer (set_state c4 InitTimer) tl) as [c5 o5] eqn:E5.
    destruct (proc_zone_status (set_state c5 InitZoneStatus) zl) as [c6 o6] eqn:E6.
    destruct (finish_init c6) as [c7 o7] eqn:E7.
    rewrite !app_assoc. rewrite <- (app_assoc n0).
    (* step 1 *)
    rewrite <- !app_assoc. rewrite (app_assoc n0). rewrite run_events_app.
    rewrite (noise_then c0 n0 _ ltac:(now rewrite S0)).
    assert (on_event c0 (EvVersion _ _ _ _ u vs) = (c1, [OSendReq RNames])) as -> by (unfold Core.on_event; now rewrite S0).
    (* step 2 *)
    rewrite (app_assoc n1). rewrite run_events_app.
    rewrite (noise_then c1 n1 _ N1).
    assert (on_event c1 (EvNames _ _ _ _ names) = (c2, [OSendReq RAbility])) as -> by reflexivity.
    (* step 3 *)
    rewrite (app_assoc n2). rewrite run_events_app.
    rewrite (noise_then c2 n2 _ N2).
    assert (on_event c2 (EvAbility _ _ _ _ abl) = (c3, [OSendReq RAcStatus])) as ->.
    { unfold Core.on_event. cbn [c_state set_state]. unfold Core.set_state at 1. cbn [c_state]. rewrite Hab. reflexivity. }
    (* step 4 *)
    rewrite (app_assoc n3). rewrite run_events_app.
    rewrite (noise_then c3 n3 _ N3).
    assert (on_event c3 (EvAcStatus _ _ _ _ sl) = (set_state c4 InitTimer, o4 ++ [OSendReq RTimer])) as ->.
    { unfold Core.on_event. cbn [c_state]. unfold c3 at 1. cbn [Core.set_state c_state]. rewrite E4. reflexivity. }
    (* step 5 *)
    rewrite (app_assoc n4). rewrite run_events_app.
    rewrite (noise_then (set_state c4 InitTimer) n4 _ N4).
    assert (on_event (set_state c4 InitTimer) (EvTimer _ _ _ _ tl) = (set_state c5 InitZoneStatus, o5 ++ [OSendReq RZoneStatus])) as ->.
    { unfold Core.on_event. cbn [Core.set_state c_state]. rewrite E5. reflexivity. }
    (* step 6 *)
    rewrite (noise_then (set_state c5 InitZoneStatus) n5 _ N5).
    assert (on_event (set_state c5 InitZoneStatus) (EvZoneStatus _ _ _ _ zl) = (c7, o6 ++ o7)) as ->.
    { unfold Core.on_event. cbn [Core.set_state c_state]. rewrite E6, E7. reflexivity. }
    f_equal. cbn [app]. rewrite <- !app_assoc. reflexivity.
  Qed.

  (* at the end the client is CONNECTED and initialised, heartbeat started *)
  Lemma finish_init_state (c : client) :
    c_state _ _ _ _ (fst (finish_init c)) = Connected /\ c_initialised _ _ _ _ (fst (finish_init c)) = true /\
    c_zones _ _ _ _ (fst (finish_init c)) = c_zones _ _ _ _ c /\ c_acs _ _ _ _ (fst (finish_init c)) = c_acs _ _ _ _ c /\
    In OStartHeartbeat (snd (finish_init c)) /\ In OInitialised (snd (finish_init c)).
  Proof.
    unfold Core.finish_init. cbn [fst snd c_state c_initialised c_zones c_acs].
    split; [reflexivity|]. split; [reflexivity|]. split; [reflexivity|]. split; [reflexivity|]. split.
    - cbn. now left.
    - cbn [app In]. right. apply in_or_app. right. now left.
  Qed.

  (* a console that stops answering: in any state short of CONNECTED, frames that are not the
     awaited answer leave the client where it is - never initialised, nothing sent *)
  Theorem silent_console (c : client) es :
    c_initialised _ _ _ _ c = false -> forallb (noise_for (c_state _ _ _ _ c)) es = true ->
    c_initialised _ _ _ _ (fst (run_events c es)) = false /\ snd (run_events c es) = [].
  Proof. intros Hi H. rewrite (noise_list_ignored es c H). split; [exact Hi|reflexivity]. Qed.

  (* ---------------------------------------------- refresh after reconnection (C14) *)
  (* a connected notification in any state but CONNECTING asks for AC status and zone status *)
  Theorem reconnect_refreshes (c : client) : c_state _ _ _ _ c <> Connecting ->
    on_connected ZS AS AB TD c = (c, [OSendReq RAcStatus; OSendReq RZoneStatus]).
  Proof. intros H. unfold on_connected. destruct (c_state _ _ _ _ c); try reflexivity. contradiction. Qed.

  Theorem first_connect_starts_handshake (c : client) : c_state _ _ _ _ c = Connecting ->
    on_connected ZS AS AB TD c = (set_state c InitVersion, [OSendReq RVersion]).
  Proof. intros H. unfold on_connected. now rewrite H. Qed.

  (* a refresh answered with unchanged data: no subscriber is called *)
  Lemma proc_zone_status_unchanged : forall l (c : client),
    (forall s, In s l -> exists z, find_zone (c_zones _ _ _ _ c) (zs_id s) = Some z /\ z_status _ z = s) ->
    NoDup (map zs_id l) ->
    snd (proc_zone_status c l) = [].
  Proof.
    induction l as [|s l IH]; intros c H ND; [reflexivity|]. cbn [Core.proc_zone_status].
    destruct (H s (or_introl eq_refl)) as [z [Fz Sz]]. rewrite Fz.
    unfold Core.update_zone. rewrite Sz, zs_eqb_refl.
    cbn [map] in ND. apply NoDup_cons_iff in ND as [Hnot ND'].
    match goal with |- context [proc_zone_status ?c1 l] => set (c1' := c1) end.
    assert (G : snd (proc_zone_status c1' l) = []).
    { apply IH; [|exact ND'].
      intros t Ht. destruct (H t (or_intror Ht)) as [z' [Fz' Sz']].
      assert (Hne : zs_id t <> zs_id s) by (intros E; apply Hnot; rewrite <- E; now apply in_map).
      exists z'. split; [|exact Sz']. subst c1'. cbn [c_zones].
      rewrite find_set_zone_other; [exact Fz'|]. cbn [z_id]. rewrite (find_zone_id _ _ _ Fz). exact Hne. }
    destruct (proc_zone_status c1' l) as [c2 o2]. cbn [snd] in *. now rewrite G.
  Qed.
End P.
