(* ApiProofs.v — facts about the API object models (Api4.v, Api5.v): validation (C11),
   value shaping and rounding (C11/C04), what the emitted frames mean (C04), retry policy of
   each public call (C02), translation tables (C10). *)
From Coq Require Import NArith ZArith List Bool Lia Arith.
From PV Require Import base.Res at4.Msg4 at4.Codec4 at4.Codec4Proofs at5.Msg5 at5.Codec5 at5.Codec5Proofs
  spec.Spec4 spec.Spec5 spec.Command4 spec.Command5 api.ApiTypes api.Api4 api.Api5.
Import ListNotations.

(* ------------------------------------------------------------------ rounding *)
Open Scope Z_scope.
(* rhe_div n d is a nearest integer to n/d, the even one on a tie *)
Lemma rhe_div_spec n d : 0 < d ->
  let q := rhe_div n d in 2 * Z.abs (n - q * d) <= d /\ (2 * Z.abs (n - q * d) = d -> Z.even q = true).
Proof.
  intros Hd. unfold rhe_div. pose proof (Z.div_mod n d ltac:(lia)) as E. pose proof (Z.mod_pos_bound n d Hd) as B.
  set (q := n / d) in *. set (r := n mod d) in *.
  destruct (2 * r <? d) eqn:C1; [apply Z.ltb_lt in C1; cbn zeta; split; [lia|intros; lia]|].
  apply Z.ltb_ge in C1. destruct (d <? 2 * r) eqn:C2.
  - apply Z.ltb_lt in C2. cbn zeta. split; [lia|intros; lia].
  - apply Z.ltb_ge in C2. assert (2 * r = d) by lia. destruct (Z.even q) eqn:Ev; cbn zeta.
    + split; [lia|auto].
    + split; [lia|]. intros _. rewrite Z.even_add, Ev. reflexivity.
Qed.

(* round0 (m, e) is the integer nearest to m * 2^e (half to even): for e < 0 in terms of the
   numerator m and denominator 2^-e *)
Lemma round0_spec m e : e < 0 ->
  let d := 2 ^ (- e) in let q := round0 m e in
  2 * Z.abs (m - q * d) <= d /\ (2 * Z.abs (m - q * d) = d -> Z.even q = true).
Proof.
  intros He. unfold round0, dy_round. assert (0 <=? e = false) as -> by (apply Z.leb_gt; lia).
  rewrite Z.mul_1_r. apply rhe_div_spec. apply Z.pow_pos_nonneg; lia.
Qed.
Lemma round0_int m e : 0 <= e -> round0 m e = m * 2 ^ e.
Proof. intros He. unfold round0, dy_round. apply Z.leb_le in He. rewrite He. lia. Qed.

(* round1 (m, e) is the number of tenths nearest to m * 2^e * 10 (half to even) *)
Lemma round1_spec m e : e < 0 ->
  let d := 2 ^ (- e) in let q := round1 m e in
  2 * Z.abs (m * 10 - q * d) <= d /\ (2 * Z.abs (m * 10 - q * d) = d -> Z.even q = true).
Proof.
  intros He. unfold round1, dy_round. assert (0 <=? e = false) as -> by (apply Z.leb_gt; lia).
  apply rhe_div_spec. apply Z.pow_pos_nonneg; lia.
Qed.
Lemma round1_int m e : 0 <= e -> round1 m e = m * 2 ^ e * 10.
Proof. intros He. unfold round1, dy_round. apply Z.leb_le in He. now rewrite He. Qed.

Lemma clip_range lo hi v : lo <= hi -> lo <= clip lo hi v <= hi.
Proof. unfold clip. lia. Qed.
Lemma clip_id lo hi v : lo <= v <= hi -> clip lo hi v = v.
Proof. unfold clip. lia. Qed.
Close Scope Z_scope.
Open Scope N_scope.

(* --------------------------------------------------- membership in the ability *)
Definition mode_bit (l : list bool) (m : p_mode) : bool := nth (Z.to_nat (p_mode_ix m)) l false.
Definition fan_bit (l : list bool) (f : p_fan) : bool := nth (Z.to_nat (p_fan_ix f)) l false.

Lemma modes_membership (l : list bool) m : length l = 5%nat ->
  existsb (mode_eqb m) (map fst (filter snd (combine all_modes l))) = mode_bit l m.
Proof.
  intros H. do 5 (destruct l as [|? l]; [discriminate H|]). destruct l; [|discriminate H].
  destruct m, b, b0, b1, b2, b3; reflexivity.
Qed.

Lemma fans_membership4 (l : list bool) f : length l = 7%nat ->
  existsb (fan_eqb f) (map fst (filter snd (combine all_fans4 l))) = fan_bit l f.
Proof.
  intros H. do 7 (destruct l as [|? l]; [discriminate H|]). destruct l; [|discriminate H].
  destruct f, b, b0, b1, b2, b3, b4, b5; reflexivity.
Qed.

Lemma fans_membership5 (l : list bool) f : length l = 8%nat ->
  existsb (fan_eqb f) (map fst (filter snd (combine all_fans5 l))) = fan_bit l f.
Proof.
  intros H. do 8 (destruct l as [|? l]; [discriminate H|]). destruct l; [|discriminate H].
  destruct f, b, b0, b1, b2, b3, b4, b5, b6; reflexivity.
Qed.

(* ================================ AirTouch 4 air-conditioner ========================= *)
(* what the decoders guarantee about a stored ability, and the protocol's numbering *)
Definition wf_ac4 (a : ac4) : Prop :=
  length (ab_modes (a4_ability a)) = 5%nat /\ length (ab_fans (a4_ability a)) = 7%nat /\ a4_id a < 64 /\
  ab_min (a4_ability a) <= ab_max (a4_ability a) /\ ab_max (a4_ability a) < 64.

Definition reads_ac4 (m : msg4) (s : sac_ctrl) : Prop :=
  exists b1 b2 b3, enc4 m = Some [b1; b2; b3; 0] /\ size4 m = Some 4%nat /\ read_ac_ctrl b1 b2 b3 = s.

Lemma reads_ac4_of c : dom_ac_ctrl c = true -> reads_ac4 (M_AcCtrl c) (mean_ac_ctrl c).
Proof. intros H. destruct (ac_ctrl_means c H) as [b1 [b2 [b3 [E R]]]]. exists b1, b2, b3. cbn [enc4 size4]. auto. Qed.

Definition mode_reading (m : p_mode) : amode :=
  match m with PM_Auto => AMS_Auto | PM_Heat => AMS_Heat | PM_Dry => AMS_Dry | PM_Fan => AMS_Fan | PM_Cool => AMS_Cool end.
Definition fan_reading (f : p_fan) : option afan :=
  match f with PF_Auto => Some AFS_Auto | PF_Quiet => Some AFS_Quiet | PF_Low => Some AFS_Low | PF_Medium => Some AFS_Medium
             | PF_High => Some AFS_High | PF_Powerful => Some AFS_Powerful | PF_Turbo => Some AFS_Turbo | PF_IntelligentAuto => None end.
Definition power_reading (p : p_power_ctl) : change onoff :=
  match p with PC_Toggle => Toggle | PC_Off => SetTo POff | PC_On => SetTo POn | PC_Away => SetTo PAway | PC_Sleep => SetTo PSleep end.

Lemma dom_ac_ctrl_id a pw mo fa : wf_ac4 a -> dom_ac_ctrl (mkAC (a4_id a) pw mo fa AS_None) = true.
Proof. intros [_ [_ [Hid _]]]. unfold dom_ac_ctrl. cbn. apply N.ltb_lt in Hid. now rewrite Hid. Qed.

(* set_power: refused unless toggle / off / on; the frame changes the power and nothing else;
   only the toggle is sent without retries *)
Theorem set_power4_spec a p : wf_ac4 a ->
  match p with
  | PC_Away | PC_Sleep => set_power4 a p = Refused
  | _ => exists m, set_power4 a p = Sent m (match p with PC_Toggle => P_NonIdempotent | _ => P_Idempotent end) /\
                   reads_ac4 m (mkSAC (a4_id a) (power_reading p) Keep Keep Keep)
  end.
Proof.
  intros W. destruct p; try reflexivity;
    (eexists; split; [reflexivity|]; exact (reads_ac4_of _ (dom_ac_ctrl_id a _ _ _ W))).
Qed.

Theorem set_mode4_spec a m on : wf_ac4 a ->
  if mode_bit (ab_modes (a4_ability a)) m
  then exists msg, set_mode4 a m on = Sent msg P_Idempotent /\
                   reads_ac4 msg (mkSAC (a4_id a) (if on then SetTo POn else Keep) (SetTo (mode_reading m)) Keep Keep)
  else set_mode4 a m on = Refused.
Proof.
  intros W. pose proof W as [Hm _]. unfold set_mode4, supported_modes4. rewrite (modes_membership _ m Hm).
  destruct (mode_bit _ m); [|reflexivity].
  destruct on, m; (eexists; split; [reflexivity|]; exact (reads_ac4_of _ (dom_ac_ctrl_id a _ _ _ W))).
Qed.

Lemma fan_bit_ia4 l : length l = 7%nat -> fan_bit l PF_IntelligentAuto = false.
Proof. intros H. do 7 (destruct l as [|? l]; [discriminate H|]). destruct l; [reflexivity|discriminate H]. Qed.

Theorem set_fan4_spec a f : wf_ac4 a ->
  if fan_bit (ab_fans (a4_ability a)) f
  then exists msg fr, fan_reading f = Some fr /\ set_fan4 a f = Sent msg P_Idempotent /\
                      reads_ac4 msg (mkSAC (a4_id a) Keep Keep (SetTo fr) Keep)
  else set_fan4 a f = Refused.
Proof.
  intros W. pose proof W as [_ [Hf _]]. unfold set_fan4, supported_fans4. rewrite (fans_membership4 _ f Hf).
  destruct (fan_bit _ f) eqn:B; [|reflexivity].
  destruct f; cbn [api_fan_ctl4 fan_reading];
    try (eexists; eexists; split; [reflexivity|]; split; [reflexivity|];
         exact (reads_ac4_of _ (dom_ac_ctrl_id a _ _ _ W))).
  rewrite (fan_bit_ia4 _ Hf) in B. discriminate B.
Qed.

(* set_target_temperature: rounded to whole degrees (half to even), clipped into the
   advertised [min, max], sent as an absolute set-point; nothing else changes *)
Theorem set_target4_spec a m e : wf_ac4 a ->
  let v := clip (Z.of_N (g4_min_target a)) (Z.of_N (g4_max_target a)) (round0 m e) in
  (Z.of_N (g4_min_target a) <= v <= Z.of_N (g4_max_target a))%Z /\
  exists msg, set_target4 a m e = Sent msg P_Idempotent /\
              reads_ac4 msg (mkSAC (a4_id a) Keep Keep Keep (SetTo (v * 10)%Z)).
Proof.
  intros W. pose proof W as [_ [_ [Hid [Hmm Hmax]]]]. cbn zeta.
  set (v := clip _ _ _). assert (Hv : (Z.of_N (g4_min_target a) <= v <= Z.of_N (g4_max_target a))%Z).
  { apply clip_range. unfold g4_min_target, g4_max_target. lia. }
  split; [exact Hv|]. eexists. split; [reflexivity|].
  assert (D : dom_ac_ctrl (mkAC (a4_id a) AP_Unchanged AM_Unchanged AF_Unchanged (AS_Value (Z.to_N v))) = true).
  { unfold dom_ac_ctrl. cbn [ac_number ac_sp]. apply andb_true_intro. split; apply N.ltb_lt; [exact Hid|].
    unfold g4_max_target in Hv. lia. }
  pose proof (reads_ac4_of _ D) as R. unfold mean_ac_ctrl in R. cbn [ac_number ac_power ac_mode ac_fan ac_sp mean_apower mean_amode mean_afan mean_asp] in R.
  rewrite Z2N.id in R by (unfold g4_min_target in Hv; lia). exact R.
Qed.

(* quick timers: the timer that is not being set goes out exactly as last reported *)
Theorem timer_pair4 a t s :
  exists on_ off_, timer_ctrl4 a t s = Sent (M_TimerCtrl [mkTD (a4_id a) on_ off_]) P_Idempotent /\
    match t with
    | PT_On => on_ = s /\ off_ = td_off (a4_timer a)
    | PT_Off => off_ = s /\ on_ = td_on (a4_timer a)
    end.
Proof. destruct t; eexists; eexists; (split; [reflexivity|split; reflexivity]). Qed.

(* ================================ AirTouch 4 zone ==================================== *)
Definition reads_group4 (m : msg4) (s : sgroup_ctrl) : Prop :=
  exists b1 b2 b3, enc4 m = Some [b1; b2; b3; 0] /\ size4 m = Some 4%nat /\ read_group_ctrl b1 b2 b3 = s.
Lemma reads_group4_of c : dom_group_ctrl c = true -> reads_group4 (M_GroupCtrl c) (mean_group_ctrl c).
Proof. intros H. destruct (group_ctrl_means c H) as [b1 [b2 [b3 [E R]]]]. exists b1, b2, b3. cbn [enc4 size4]. auto. Qed.

Definition zpower_reading (p : p_zpower) : zone_power := match p with PZ_Off => ZOff | PZ_On => ZOn | PZ_Turbo => ZTurbo end.

Theorem zone_set_power4_spec z p : z4_id z < 256 ->
  if match p with PZ_Turbo => gs_turbo (z4_status z) | _ => true end
  then exists msg, zone_set_power4 z p = Sent msg P_Idempotent /\
                   reads_group4 msg (mkSGC (z4_id z) Keep Keep (SetTo (zpower_reading p)))
  else zone_set_power4 z p = Refused.
Proof.
  intros Hid. assert (D : forall pw, dom_group_ctrl (mkGC (z4_id z) pw GM_Unchanged GS_None) = true).
  { intros pw. unfold dom_group_ctrl. cbn. apply N.ltb_lt in Hid. now rewrite Hid. }
  unfold zone_set_power4, gz4_supported_power.
  destruct p; destruct (gs_turbo (z4_status z)); try reflexivity;
    (eexists; split; [reflexivity|]; exact (reads_group4_of _ (D _))).
Qed.

Theorem zone_set_damper4_spec z p : z4_id z < 256 ->
  if ((p <? 0) || (100 <? p))%Z then zone_set_damper4 z p = Refused
  else exists msg, zone_set_damper4 z p = Sent msg P_Idempotent /\
                   reads_group4 msg (mkSGC (z4_id z) (SetTo (Percent (Z.to_N p))) (SetTo ByPercentage) Keep).
Proof.
  intros Hid. unfold zone_set_damper4. destruct ((p <? 0) || (100 <? p))%Z eqn:R; [reflexivity|].
  apply orb_false_iff in R as [R1 R2]. apply Z.ltb_ge in R1, R2.
  eexists. split; [reflexivity|].
  apply (reads_group4_of (mkGC (z4_id z) GP_Unchanged GM_Damper (GS_Damper (Z.to_N p)))).
  unfold dom_group_ctrl. cbn [gc_group gc_setting]. apply andb_true_intro. split; apply N.ltb_lt; [exact Hid|lia].
Qed.

Theorem zone_set_target4_spec z m e : z4_id z < 256 ->
  if gs_sensor (z4_status z)
  then (0 <= round0 m e < 256)%Z ->
       exists msg, zone_set_target4 z m e = Sent msg P_Idempotent /\
                   reads_group4 msg (mkSGC (z4_id z) (SetTo (SetPointDeg (round0 m e * 10))) (SetTo ByTemperature) Keep)
  else zone_set_target4 z m e = Refused.
Proof.
  intros Hid. unfold zone_set_target4, gz4_has_sensor. destruct (gs_sensor (z4_status z)); [|reflexivity].
  intros Hr. assert ((0 <=? round0 m e)%Z && (round0 m e <? 256)%Z = true) as ->.
  { apply andb_true_intro. split; [apply Z.leb_le|apply Z.ltb_lt]; lia. }
  eexists. split; [reflexivity|].
  pose proof (reads_group4_of (mkGC (z4_id z) GP_Unchanged GM_Temperature (GS_SetPoint (Z.to_N (round0 m e))))) as R.
  unfold mean_group_ctrl in R. cbn [gc_group gc_power gc_method gc_setting mean_gsetting mean_gmethod mean_gpower] in R.
  rewrite Z2N.id in R by lia. apply R.
  unfold dom_group_ctrl. cbn [gc_group gc_setting]. apply andb_true_intro. split; apply N.ltb_lt; [exact Hid|lia].
Qed.

(* ================================ AirTouch 5 ========================================= *)
Lemma enc_list_single {A} (f : A -> option (list N)) a r : f a = Some r -> enc_list f [a] = Some r.
Proof. intros H. unfold enc_list. cbn. rewrite H. cbn. now rewrite app_nil_r. Qed.

(* the sub-header of a one-record control message: sub-type, no normal data, record size, count 1 *)
Definition c0_one (id : N) (rl : N) : list N := [id; 0; 0; 0; 0; rl; 0; 1].

Definition reads_ac5 (m : msg5) (s : sac5_ctrl) : Prop :=
  exists b1 b2 b3 b4, enc5 m = Some (c0_one 0x22 4 ++ [b1; b2; b3; b4]) /\ size5 m = Some 12%nat /\
                      read_ac5_ctrl b1 b2 b3 b4 = s.
Lemma reads_ac5_of c : dom_ac5_ctrl c = true -> reads_ac5 (M5_Ctl (C_AcCtrl [c])) (mean_ac5_ctrl c).
Proof.
  intros H. destruct (ac5_ctrl_means c H) as [b1 [b2 [b3 [b4 [E R]]]]]. exists b1, b2, b3, b4.
  cbn [enc5 size5 c0_size length]. unfold enc_c0, c0_parts. rewrite (enc_list_single _ _ _ E). cbn. auto.
Qed.

Definition reads_zone5 (m : msg5) (s : szone_ctrl) : Prop :=
  exists b1 b2 b3, enc5 m = Some (c0_one 0x20 4 ++ [b1; b2; b3; 0]) /\ size5 m = Some 12%nat /\
                   read_zone_ctrl b1 b2 b3 = s.
Lemma reads_zone5_of z : dom_zone_ctrl64 z = true -> reads_zone5 (M5_Ctl (C_ZoneCtrl [z])) (mean_zone_ctrl z).
Proof.
  intros H. destruct (zone_ctrl_means z H) as [b1 [b2 [b3 [E R]]]]. exists b1, b2, b3.
  cbn [enc5 size5 c0_size length]. unfold enc_c0, c0_parts. rewrite (enc_list_single _ _ _ E). cbn. auto.
Qed.

Definition wf_ac5 (a : ac5) : Prop :=
  length (ab5_modes (a5_ability a)) = 5%nat /\ length (ab5_fans (a5_ability a)) = 8%nat /\ a5_id a < 16.

Lemma dom_ac5_ctrl_id a pw mo fa : wf_ac5 a -> dom_ac5_ctrl (mkA5C (a5_id a) pw mo fa None) = true.
Proof. intros [_ [_ Hid]]. unfold dom_ac5_ctrl. cbn. apply N.ltb_lt in Hid. now rewrite Hid. Qed.

Definition fan_reading5 (f : p_fan) : fan5 :=
  match f with PF_Auto => F5 AFS_Auto | PF_Quiet => F5 AFS_Quiet | PF_Low => F5 AFS_Low | PF_Medium => F5 AFS_Medium
             | PF_High => F5 AFS_High | PF_Powerful => F5 AFS_Powerful | PF_Turbo => F5 AFS_Turbo
             | PF_IntelligentAuto => F5IntelligentAuto end.

Theorem set_power5_spec a p : wf_ac5 a ->
  exists m, set_power5 a p = Sent m (match p with PC_Toggle => P_NonIdempotent | _ => P_Idempotent end) /\
            reads_ac5 m (mkSAC5 (a5_id a) (power_reading p) Keep Keep Keep).
Proof.
  intros W. destruct p; (eexists; split; [reflexivity|]; exact (reads_ac5_of _ (dom_ac5_ctrl_id a _ _ _ W))).
Qed.

Theorem set_mode5_spec a m on : wf_ac5 a ->
  if mode_bit (ab5_modes (a5_ability a)) m
  then exists msg, set_mode5 a m on = Sent msg P_Idempotent /\
                   reads_ac5 msg (mkSAC5 (a5_id a) (if on then SetTo POn else Keep) (SetTo (mode_reading m)) Keep Keep)
  else set_mode5 a m on = Refused.
Proof.
  intros W. pose proof W as [Hm _]. unfold set_mode5, supported_modes5. rewrite (modes_membership _ m Hm).
  destruct (mode_bit _ m); [|reflexivity].
  destruct on, m; (eexists; split; [reflexivity|]; exact (reads_ac5_of _ (dom_ac5_ctrl_id a _ _ _ W))).
Qed.

Theorem set_fan5_spec a f : wf_ac5 a ->
  if fan_bit (ab5_fans (a5_ability a)) f
  then exists msg, set_fan5 a f = Sent msg P_Idempotent /\
                   reads_ac5 msg (mkSAC5 (a5_id a) Keep Keep (SetTo (fan_reading5 f)) Keep)
  else set_fan5 a f = Refused.
Proof.
  intros W. pose proof W as [_ [Hf _]]. unfold set_fan5, supported_fans5. rewrite (fans_membership5 _ f Hf).
  destruct (fan_bit _ f); [|reflexivity].
  destruct f; (eexists; split; [reflexivity|]; exact (reads_ac5_of _ (dom_ac5_ctrl_id a _ _ _ W))).
Qed.

(* set_target_temperature: rounded to 0.1 degC (half to even), clipped into the limits of the
   current mode; the limits must be what the protocol can carry (10.0 .. 35.5 degC) *)
Theorem set_target5_spec a m e : wf_ac5 a ->
  (10 <= g5_min_target a)%N -> (g5_min_target a <= g5_max_target a)%N -> (g5_max_target a <= 35)%N ->
  let v := clip (Z.of_N (g5_min_target a) * 10) (Z.of_N (g5_max_target a) * 10) (round1 m e) in
  (Z.of_N (g5_min_target a) * 10 <= v <= Z.of_N (g5_max_target a) * 10)%Z /\
  exists msg, set_target5 a m e = Sent msg P_Idempotent /\
              reads_ac5 msg (mkSAC5 (a5_id a) Keep Keep Keep (SetTo v)).
Proof.
  intros W H10 Hmm H35. pose proof W as [_ [_ Hid]]. cbn zeta.
  set (v := clip _ _ _). assert (Hv : (Z.of_N (g5_min_target a) * 10 <= v <= Z.of_N (g5_max_target a) * 10)%Z).
  { apply clip_range. lia. }
  split; [exact Hv|]. eexists. split; [reflexivity|].
  apply (reads_ac5_of (mkA5C (a5_id a) A5P_Unchanged AM_Unchanged A5F_Unchanged (Some v))).
  unfold dom_ac5_ctrl. cbn [a5c_number a5c_sp]. apply andb_true_intro. split; [now apply N.ltb_lt|].
  apply andb_true_intro. split; apply Z.leb_le; lia.
Qed.

Theorem timer_pair5 a t s :
  exists on_ off_, timer_ctrl5 a t s = Sent (M5_Ctl (C_TimerCtrl [mkTD (a5_id a) on_ off_])) P_Idempotent /\
    match t with
    | PT_On => on_ = s /\ off_ = td_off (a5_timer a)
    | PT_Off => off_ = s /\ on_ = td_on (a5_timer a)
    end.
Proof. destruct t; eexists; eexists; (split; [reflexivity|split; reflexivity]). Qed.

(* ---- zones *)
Lemma dom_zone_ctrl_id z pw st : z5_id z < 64 ->
  match st with ZS_Damper p => p < 256 | ZS_SetPoint d => (100 <= d <= 355)%Z | _ => True end ->
  dom_zone_ctrl64 (mkZC (z5_id z) pw st) = true.
Proof.
  intros Hid Hs. unfold dom_zone_ctrl64, dom_zone_ctrl. cbn [zc_zone zc_setting].
  assert (z5_id z <? 256 = true) as -> by (apply N.ltb_lt; lia).
  assert (z5_id z <? 64 = true) as -> by (now apply N.ltb_lt). rewrite andb_true_r. cbn [andb].
  destruct st; try reflexivity; [now apply N.ltb_lt|apply andb_true_intro; split; apply Z.leb_le; lia].
Qed.

Theorem zone_set_power5_spec z p : z5_id z < 64 ->
  exists msg, zone_set_power5 z p = Sent msg P_Idempotent /\
              reads_zone5 msg (mkSZC (z5_id z) Keep Keep (SetTo (zpower_reading p))).
Proof.
  intros Hid. destruct p; (eexists; split; [reflexivity|]; exact (reads_zone5_of _ (dom_zone_ctrl_id z _ ZS_None Hid I))).
Qed.

Theorem zone_set_damper5_spec z p : z5_id z < 64 ->
  if ((p <? 0) || (100 <? p))%Z then zone_set_damper5 z p = Refused
  else exists msg, zone_set_damper5 z p = Sent msg P_Idempotent /\
                   reads_zone5 msg (mkSZC (z5_id z) (SetTo (Percent (Z.to_N p))) Keep Keep).
Proof.
  intros Hid. unfold zone_set_damper5. destruct ((p <? 0) || (100 <? p))%Z eqn:R; [reflexivity|].
  apply orb_false_iff in R as [R1 R2]. apply Z.ltb_ge in R1, R2.
  eexists. split; [reflexivity|].
  apply (reads_zone5_of (mkZC (z5_id z) ZP_Unchanged (ZS_Damper (Z.to_N p)))). apply dom_zone_ctrl_id; [exact Hid|lia].
Qed.

Theorem zone_set_target5_spec z m e : z5_id z < 64 ->
  if zs_sensor (z5_status z)
  then (100 <= round1 m e <= 355)%Z ->
       exists msg, zone_set_target5 z m e = Sent msg P_Idempotent /\
                   reads_zone5 msg (mkSZC (z5_id z) (SetTo (SetPointDeg (round1 m e))) Keep Keep)
  else zone_set_target5 z m e = Refused.
Proof.
  intros Hid. unfold zone_set_target5, gz5_has_sensor. destruct (zs_sensor (z5_status z)); [|reflexivity].
  intros Hr. assert ((100 <=? round1 m e)%Z && (round1 m e <? 356)%Z = true) as ->.
  { apply andb_true_intro. split; [apply Z.leb_le|apply Z.ltb_lt]; lia. }
  eexists. split; [reflexivity|].
  apply (reads_zone5_of (mkZC (z5_id z) ZP_Unchanged (ZS_SetPoint (round1 m e)))). apply dom_zone_ctrl_id; [exact Hid|lia].
Qed.

(* ================================ translation tables (C10) ========================== *)
(* selected mode: the automatic variants read AUTO; active mode: the concrete mode in effect *)
Definition auto_variant (m : amode) : bool := match m with AMS_Auto | AMS_AutoHeat | AMS_AutoCool => true | _ => false end.
Definition mode_in_effect (m : amode) : p_mode :=
  match m with AMS_Auto => PM_Auto | AMS_Heat | AMS_AutoHeat => PM_Heat | AMS_Dry => PM_Dry | AMS_Fan => PM_Fan
             | AMS_Cool | AMS_AutoCool => PM_Cool end.
Lemma mode_tables m :
  selected_mode4 m = (if auto_variant m then PM_Auto else mode_in_effect m) /\ active_mode4 m = mode_in_effect m.
Proof. destruct m; split; reflexivity. Qed.

(* AirTouch 5 fan speed: intelligent-auto variants read INTELLIGENT_AUTO when selected and
   the concrete speed when active; the plain speeds read themselves *)
Definition ia_variant (f : a5fan) : bool :=
  match f with A5FS_IAQuiet | A5FS_IALow | A5FS_IAMedium | A5FS_IAHigh | A5FS_IAPowerful | A5FS_IATurbo => true | _ => false end.
Definition speed_in_effect (f : a5fan) : p_fan :=
  match f with A5FS_Auto => PF_Auto | A5FS_Quiet | A5FS_IAQuiet => PF_Quiet | A5FS_Low | A5FS_IALow => PF_Low
             | A5FS_Medium | A5FS_IAMedium => PF_Medium | A5FS_High | A5FS_IAHigh => PF_High
             | A5FS_Powerful | A5FS_IAPowerful => PF_Powerful | A5FS_Turbo | A5FS_IATurbo => PF_Turbo end.
Lemma fan_tables5 f :
  selected_fan5 f = (if ia_variant f then PF_IntelligentAuto else speed_in_effect f) /\ active_fan5 f = speed_in_effect f.
Proof. destruct f; split; reflexivity. Qed.

(* limits follow the current mode *)
Lemma limits5 a :
  match a5s_mode (a5_status a) with
  | AMS_Heat => g5_min_target a = ab5_min_heat (a5_ability a) /\ g5_max_target a = ab5_max_heat (a5_ability a)
  | AMS_Cool => g5_min_target a = ab5_min_cool (a5_ability a) /\ g5_max_target a = ab5_max_cool (a5_ability a)
  | _ => g5_min_target a = N.min (ab5_min_heat (a5_ability a)) (ab5_min_cool (a5_ability a)) /\
         g5_max_target a = N.max (ab5_max_heat (a5_ability a)) (ab5_max_cool (a5_ability a))
  end.
Proof. unfold g5_min_target, g5_max_target. destruct (a5s_mode (a5_status a)); split; reflexivity. Qed.

(* error details exactly while an error code is present *)
Lemma error_info4 a : g4_error_info a = None <-> as_error (a4_status a) = 0.
Proof. unfold g4_error_info. destruct (as_error (a4_status a) =? 0) eqn:E; [apply N.eqb_eq in E|apply N.eqb_neq in E]; split; intros; congruence. Qed.
Lemma error_info5 a : g5_error_info a = None <-> a5s_error (a5_status a) = 0.
Proof. unfold g5_error_info. destruct (a5s_error (a5_status a) =? 0) eqn:E; [apply N.eqb_eq in E|apply N.eqb_neq in E]; split; intros; congruence. Qed.
