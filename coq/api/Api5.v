(* Api5.v — model of the AirTouch 5 API objects (at5/api.py): translation tables, getters of
   At5AirConditioner / At5Zone, and the public control calls with their validation, value
   shaping and retry policy.  Temperatures and set-points are tenths of a degree.  No
   proofs here. *)
From Coq Require Import NArith ZArith List Bool.
From PV Require Import base.Res at4.Msg4 at5.Msg5 api.ApiTypes api.Api4.
Import ListNotations.
Open Scope N_scope.

Record ac5 := mkAc5 { a5_ability : ability5; a5_status : ac5_status; a5_timer : timer_data; a5_err : option (list N) }.
Record zone5 := mkZone5 { z5_name : list N; z5_status : zone_status }.

Definition a5_id (a : ac5) : N := a5s_number (a5_status a).
Definition z5_id (z : zone5) : N := zs_zone (z5_status z).

(* ------------------------------------------------------------------ tables *)
Definition ac_power_state5 (p : a5power) : p_ac_power :=
  match p with A5S_Off => PA_Off | A5S_On => PA_On | A5S_OffAway => PA_OffAway | A5S_OnAway => PA_OnAway | A5S_Sleep => PA_Sleep end.
Definition selected_fan5 (f : a5fan) : p_fan :=
  match f with A5FS_Auto => PF_Auto | A5FS_Quiet => PF_Quiet | A5FS_Low => PF_Low | A5FS_Medium => PF_Medium
             | A5FS_High => PF_High | A5FS_Powerful => PF_Powerful | A5FS_Turbo => PF_Turbo
             | A5FS_IAQuiet | A5FS_IALow | A5FS_IAMedium | A5FS_IAHigh | A5FS_IAPowerful | A5FS_IATurbo => PF_IntelligentAuto end.
Definition active_fan5 (f : a5fan) : p_fan :=
  match f with A5FS_Auto => PF_Auto | A5FS_Quiet => PF_Quiet | A5FS_Low => PF_Low | A5FS_Medium => PF_Medium
             | A5FS_High => PF_High | A5FS_Powerful => PF_Powerful | A5FS_Turbo => PF_Turbo
             | A5FS_IAQuiet => PF_Quiet | A5FS_IALow => PF_Low | A5FS_IAMedium => PF_Medium | A5FS_IAHigh => PF_High
             | A5FS_IAPowerful => PF_Powerful | A5FS_IATurbo => PF_Turbo end.

Definition api_power_ctl5 (p : p_power_ctl) : a5power_ctl :=
  match p with PC_Toggle => A5P_Toggle | PC_Off => A5P_Off | PC_On => A5P_On | PC_Away => A5P_Away | PC_Sleep => A5P_Sleep end.
Definition api_fan_ctl5 (f : p_fan) : a5fan_ctl :=
  match f with PF_Auto => A5F_Auto | PF_Quiet => A5F_Quiet | PF_Low => A5F_Low | PF_Medium => A5F_Medium
             | PF_High => A5F_High | PF_Powerful => A5F_Powerful | PF_Turbo => A5F_Turbo
             | PF_IntelligentAuto => A5F_IntelligentAuto end.

Definition zone_power_state5 (p : zpower) : p_zpower := match p with ZPS_Off => PZ_Off | ZPS_On => PZ_On | ZPS_Turbo => PZ_Turbo end.
Definition api_zone_power5 (p : p_zpower) : zpower_ctl := match p with PZ_Off => ZP_Off | PZ_On => ZP_On | PZ_Turbo => ZP_Turbo end.
Definition zone_method5 (m : zmethod) : p_zmethod := match m with ZMS_Damper => PZM_Damper | ZMS_Temperature => PZM_Temperature end.

(* ------------------------------------------------- supported controls (AC) *)
Definition all_fans5 : list p_fan := all_fans4 ++ [PF_IntelligentAuto].
Definition supported_power_controls5 : list p_power_ctl := [PC_Toggle; PC_Off; PC_On; PC_Away; PC_Sleep].
Definition supported_modes5 (a : ac5) : list p_mode :=
  map fst (filter snd (combine all_modes (ab5_modes (a5_ability a)))).
Definition supported_fans5 (a : ac5) : list p_fan :=
  map fst (filter snd (combine all_fans5 (ab5_fans (a5_ability a)))).

(* ----------------------------------------------------------- getters (AC) *)
Definition g5_power_state (a : ac5) : p_ac_power := ac_power_state5 (a5s_power (a5_status a)).
Definition g5_selected_mode (a : ac5) : p_mode := selected_mode4 (a5s_mode (a5_status a)).
Definition g5_active_mode (a : ac5) : p_mode := active_mode4 (a5s_mode (a5_status a)).
Definition g5_selected_fan (a : ac5) : p_fan := selected_fan5 (a5s_fan (a5_status a)).
Definition g5_active_fan (a : ac5) : p_fan := active_fan5 (a5s_fan (a5_status a)).
Definition g5_current_temp (a : ac5) : Z := a5s_temp (a5_status a).
Definition g5_target_temp (a : ac5) : Z := a5s_setpoint (a5_status a).
(* limits follow the current mode: heat / cool / the widest range otherwise (degrees) *)
Definition g5_min_target (a : ac5) : N :=
  let ab := a5_ability a in
  match a5s_mode (a5_status a) with
  | AMS_Heat => ab5_min_heat ab | AMS_Cool => ab5_min_cool ab | _ => N.min (ab5_min_heat ab) (ab5_min_cool ab) end.
Definition g5_max_target (a : ac5) : N :=
  let ab := a5_ability a in
  match a5s_mode (a5_status a) with
  | AMS_Heat => ab5_max_heat ab | AMS_Cool => ab5_max_cool ab | _ => N.max (ab5_max_heat ab) (ab5_max_cool ab) end.
Definition g5_spill (a : ac5) : p_spill :=
  if a5s_spill (a5_status a) then PS_Spill else if a5s_bypass (a5_status a) then PS_Bypass else PS_None.
Definition g5_next_timer (a : ac5) (t : p_timer) : option (option (N * N)) :=
  let s := match t with PT_Off => td_off (a5_timer a) | PT_On => td_on (a5_timer a) end in
  if ts_disabled s then Some None
  else if (ts_hour s <? 24) && (ts_minute s <? 60) then Some (Some (ts_hour s, ts_minute s)) else None.
Definition g5_error_info (a : ac5) : option (N * option (list N)) :=
  if a5s_error (a5_status a) =? 0 then None else Some (a5s_error (a5_status a), a5_err a).

(* --------------------------------------------------------- getters (zone) *)
Definition gz5_supported_power (z : zone5) : list p_zpower := [PZ_Off; PZ_On; PZ_Turbo].
Definition gz5_power_state (z : zone5) : p_zpower := zone_power_state5 (zs_power (z5_status z)).
Definition gz5_method (z : zone5) : p_zmethod := zone_method5 (zs_method (z5_status z)).
Definition gz5_has_sensor (z : zone5) : bool := zs_sensor (z5_status z).
Definition gz5_battery (z : zone5) : p_battery := battery4 (zs_battery (z5_status z)).
Definition gz5_current_temp (z : zone5) : option Z := zs_temp (z5_status z).
Definition gz5_target_temp (z : zone5) : option Z := zs_setpoint (z5_status z).
Definition gz5_damper (z : zone5) : N := zs_damper (z5_status z).
Definition gz5_spill (z : zone5) : bool := zs_spill (z5_status z).

(* ------------------------------------------------------- control calls (AC) *)
Definition ac_ctrl_policy5 (c : ac5_ctrl) : policy :=
  match a5c_power c with A5P_Toggle => P_NonIdempotent | _ => P_Idempotent end.
Definition send_ac_ctrl5 (a : ac5) (pw : a5power_ctl) (mo : amode_ctl) (fa : a5fan_ctl) (sp : option Z) : outcome msg5 :=
  let c := mkA5C (a5_id a) pw mo fa sp in Sent (M5_Ctl (C_AcCtrl [c])) (ac_ctrl_policy5 c).

Definition set_power5 (a : ac5) (p : p_power_ctl) : outcome msg5 :=
  if existsb (power_ctl_eqb p) supported_power_controls5
  then send_ac_ctrl5 a (api_power_ctl5 p) AM_Unchanged A5F_Unchanged None else Refused.

Definition set_mode5 (a : ac5) (m : p_mode) (power_on : bool) : outcome msg5 :=
  if existsb (mode_eqb m) (supported_modes5 a)
  then send_ac_ctrl5 a (if power_on then A5P_On else A5P_Unchanged) (api_mode_ctl4 m) A5F_Unchanged None
  else Refused.

Definition set_fan5 (a : ac5) (f : p_fan) : outcome msg5 :=
  if existsb (fan_eqb f) (supported_fans5 a)
  then send_ac_ctrl5 a A5P_Unchanged AM_Unchanged (api_fan_ctl5 f) None else Refused.

(* set_target_temperature(x), x = m * 2^e: round to 0.1, clip into the current [min, max] *)
Definition set_target5 (a : ac5) (m e : Z) : outcome msg5 :=
  let v := clip (Z.of_N (g5_min_target a) * 10) (Z.of_N (g5_max_target a) * 10) (round1 m e) in
  send_ac_ctrl5 a A5P_Unchanged AM_Unchanged A5F_Unchanged (Some v).

Definition timer_ctrl5 (a : ac5) (t : p_timer) (s : timer_state) : outcome msg5 :=
  let on_ := match t with PT_On => s | PT_Off => td_on (a5_timer a) end in
  let off_ := match t with PT_Off => s | PT_On => td_off (a5_timer a) end in
  Sent (M5_Ctl (C_TimerCtrl [mkTD (a5_id a) on_ off_])) P_Idempotent.
Definition set_timer_duration5 (a : ac5) (t : p_timer) (minutes : N) : outcome msg5 :=
  Sent (M5_Ext (S5_QuickTimer (a5_id a) (api_timer_type4 t) minutes)) P_Idempotent.
Definition set_timer_time5 (a : ac5) (t : p_timer) (hour minute : N) : outcome msg5 :=
  timer_ctrl5 a t (mkTS false hour minute).
Definition clear_timer5 (a : ac5) (t : p_timer) : outcome msg5 := timer_ctrl5 a t (mkTS true 0 0).

Definition check_updates5 : outcome msg5 := Sent (M5_Ext S5_VersionReq) P_Idempotent.

(* ----------------------------------------------------- control calls (zone) *)
Definition zone_ctrl_policy5 (c : zone_ctrl) : policy :=
  match zc_setting c, zc_power c with
  | ZS_Dec, _ | ZS_Inc, _ => P_NonIdempotent
  | _, ZP_Toggle => P_NonIdempotent
  | _, _ => P_Idempotent
  end.
Definition send_zone_ctrl5 (z : zone5) (pw : zpower_ctl) (st : zsetting) : outcome msg5 :=
  let c := mkZC (z5_id z) pw st in Sent (M5_Ctl (C_ZoneCtrl [c])) (zone_ctrl_policy5 c).

Definition zone_set_power5 (z : zone5) (p : p_zpower) : outcome msg5 :=
  if existsb (zpower_eqb p) (gz5_supported_power z) then send_zone_ctrl5 z (api_zone_power5 p) ZS_None else Refused.

(* rounded to 0.1, not clamped; values outside 10.0 .. 35.5 degC do not fit the byte *)
Definition zone_set_target5 (z : zone5) (m e : Z) : outcome msg5 :=
  if gz5_has_sensor z then
    let v := round1 m e in
    if (100 <=? v)%Z && (v <? 356)%Z then send_zone_ctrl5 z ZP_Unchanged (ZS_SetPoint v) else Unsendable
  else Refused.

Definition zone_set_damper5 (z : zone5) (p : Z) : outcome msg5 :=
  if (p <? 0)%Z || (100 <? p)%Z then Refused else send_zone_ctrl5 z ZP_Unchanged (ZS_Damper (Z.to_N p)).
