(* CommonProofs.v — C19: equal views, equal verdicts and equal meanings over both generations. *)
From Coq Require Import NArith ZArith List Bool Lia Arith.
From PV Require Import base.Res at4.Msg4 at4.Codec4 at5.Msg5 at5.Codec5 spec.Spec4 spec.Spec5 spec.Command4 spec.Command5
  api.ApiTypes api.Api4 api.Api5 api.ApiProofs api.Common.
Import ListNotations.
Open Scope N_scope.

Definition kac_ok (k : kac) : Prop := length (k_modes k) = 5%nat /\ length (k_fans k) = 7%nat.

Lemma fans_common (l : list bool) : length l = 7%nat ->
  map fst (filter snd (combine all_fans5 (l ++ [false]))) = map fst (filter snd (combine all_fans4 l)).
Proof.
  intros H. do 7 (destruct l as [|? l]; [discriminate H|]). destruct l; [|discriminate H].
  destruct b, b0, b1, b2, b3, b4, b5; reflexivity.
Qed.

Lemma fan_tables_common f : selected_fan5 (fan5_of f) = fan_speed4 f /\ active_fan5 (fan5_of f) = fan_speed4 f.
Proof. destruct f; split; reflexivity. Qed.

(* every attribute both generations support reads the same *)
Theorem views_equal k : kac_ok k -> view4 (ac4_of k) = view5 (ac5_of k).
Proof.
  intros [Hm Hf]. unfold view4, view5. f_equal.
  - unfold g4_power_state, g5_power_state, ac4_of, ac5_of. cbn. now destruct (k_on k).
  - unfold g4_selected_fan, g5_selected_fan, ac4_of, ac5_of. cbn. now destruct (fan_tables_common (k_fan k)) as [-> _].
  - unfold g4_active_fan, g5_active_fan, ac4_of, ac5_of. cbn. now destruct (fan_tables_common (k_fan k)) as [_ ->].
  - unfold g5_min_target, g4_min_target, ac4_of, ac5_of. cbn. destruct (k_mode k); rewrite ?N.min_id; reflexivity.
  - unfold g5_max_target, g4_max_target, ac4_of, ac5_of. cbn. destruct (k_mode k); rewrite ?N.max_id; reflexivity.
  - unfold supported_fans4, supported_fans5, ac4_of, ac5_of. cbn. symmetry. now apply fans_common.
Qed.

Theorem zone_views_equal k : zview4 (zone4_of k) = zview5 (zone5_of k).
Proof.
  unfold zview4, zview5, zone4_of, zone5_of, gz4_supported_power, gz5_supported_power, gz4_power_state, gz5_power_state,
         gz4_method, gz5_method, gz4_has_sensor, gz5_has_sensor, gz4_battery, gz5_battery, gz4_current_temp, gz5_current_temp,
         gz4_target_temp, gz5_target_temp, gz4_damper, gz5_damper, gz4_spill, gz5_spill.
  cbn. destruct (kz_power k), (kz_method k), (kz_sensor k); reflexivity.
Qed.

(* ---- the same requests are accepted and refused, with the same policy and the same meaning *)
Definition wf_k (k : kac) : Prop := kac_ok k /\ k_num k < 16 /\ 10 <= k_min k /\ k_min k <= k_max k /\ k_max k <= 35.

Lemma wf4_of k : wf_k k -> wf_ac4 (ac4_of k).
Proof. intros [[Hm Hf] [Hn [H1 [H2 H3]]]]. unfold wf_ac4, ac4_of, a4_id. cbn. repeat split; try assumption; lia. Qed.
Lemma wf5_of k : wf_k k -> wf_ac5 (ac5_of k).
Proof.
  intros [[Hm Hf] [Hn _]]. unfold wf_ac5, ac5_of, a5_id. cbn [a5_ability a5_status ab5_modes ab5_fans a5s_number].
  split; [exact Hm|]. split; [rewrite app_length, Hf; reflexivity|exact Hn].
Qed.

Definition same_meaning (o4 : outcome msg4) (o5 : outcome msg5) : Prop :=
  match o4, o5 with
  | Refused, Refused => True
  | Sent m4 p4, Sent m5 p5 =>
    p4 = p5 /\ exists s4 s5, reads_ac4 m4 s4 /\ reads_ac5 m5 s5 /\ intent4 s4 = intent5 s5
  | _, _ => False
  end.

Lemma fan_bit_common l f : length l = 7%nat -> f <> PF_IntelligentAuto -> fan_bit (l ++ [false]) f = fan_bit l f.
Proof.
  intros H Hf. do 7 (destruct l as [|? l]; [discriminate H|]). destruct l; [|discriminate H].
  destruct f; reflexivity.
Qed.
Lemma fan_bit_ia_common l : length l = 7%nat -> fan_bit (l ++ [false]) PF_IntelligentAuto = false.
Proof. intros H. do 7 (destruct l as [|? l]; [discriminate H|]). destruct l; [reflexivity|discriminate H]. Qed.

(* power: toggle / off / on mean the same; away / sleep exist on AirTouch 5 only (documented) *)
Theorem same_power k p : wf_k k -> (p = PC_Toggle \/ p = PC_Off \/ p = PC_On) ->
  same_meaning (set_power4 (ac4_of k) p) (set_power5 (ac5_of k) p).
Proof.
  intros W Hp. pose proof (set_power4_spec (ac4_of k) p (wf4_of k W)) as S4.
  destruct (set_power5_spec (ac5_of k) p (wf5_of k W)) as [m5 [E5 R5]].
  destruct Hp as [->|[->| ->]]; destruct S4 as [m4 [E4 R4]]; rewrite E4, E5; cbn [same_meaning];
    (split; [reflexivity|]); eexists; eexists; (split; [exact R4|split; [exact R5|reflexivity]]).
Qed.

Theorem same_mode k m on : wf_k k -> same_meaning (set_mode4 (ac4_of k) m on) (set_mode5 (ac5_of k) m on).
Proof.
  intros W. pose proof (set_mode4_spec (ac4_of k) m on (wf4_of k W)) as S4.
  pose proof (set_mode5_spec (ac5_of k) m on (wf5_of k W)) as S5.
  change (ab5_modes (a5_ability (ac5_of k))) with (k_modes k) in S5.
  change (ab_modes (a4_ability (ac4_of k))) with (k_modes k) in S4.
  destruct (mode_bit (k_modes k) m).
  - destruct S4 as [m4 [E4 R4]]. destruct S5 as [m5 [E5 R5]]. rewrite E4, E5. cbn [same_meaning].
    split; [reflexivity|]. eexists; eexists; (split; [exact R4|split; [exact R5|reflexivity]]).
  - now rewrite S4, S5.
Qed.

Theorem same_fan k f : wf_k k -> f <> PF_IntelligentAuto -> same_meaning (set_fan4 (ac4_of k) f) (set_fan5 (ac5_of k) f).
Proof.
  intros W Hf. pose proof W as [[_ Hl] _].
  pose proof (set_fan4_spec (ac4_of k) f (wf4_of k W)) as S4.
  pose proof (set_fan5_spec (ac5_of k) f (wf5_of k W)) as S5.
  change (ab5_fans (a5_ability (ac5_of k))) with (k_fans k ++ [false]) in S5.
  change (ab_fans (a4_ability (ac4_of k))) with (k_fans k) in S4.
  rewrite (fan_bit_common _ f Hl Hf) in S5.
  destruct (fan_bit (k_fans k) f).
  - destruct S4 as [m4 [fr [Efr [E4 R4]]]]. destruct S5 as [m5 [E5 R5]]. rewrite E4, E5. cbn [same_meaning].
    split; [reflexivity|]. eexists; eexists; (split; [exact R4|split; [exact R5|]]).
    unfold intent4, intent5. cbn. f_equal. destruct f; cbn in Efr; try (injection Efr as <-; reflexivity). contradiction.
  - now rewrite S4, S5.
Qed.

(* set-point: a whole number of degrees (m * 2^e with e >= 0) is clipped into the same limits
   and asks for the same temperature on both wires *)
Theorem same_target k m e : wf_k k -> (0 <= e)%Z ->
  same_meaning (set_target4 (ac4_of k) m e) (set_target5 (ac5_of k) m e).
Proof.
  intros W He. pose proof W as [_ [_ [H10 [Hmm H35]]]].
  destruct (set_target4_spec (ac4_of k) m e (wf4_of k W)) as [_ [m4 [E4 R4]]].
  assert (L5min : g5_min_target (ac5_of k) = k_min k) by (unfold g5_min_target, ac5_of; cbn; destruct (k_mode k); rewrite ?N.min_id; reflexivity).
  assert (L5max : g5_max_target (ac5_of k) = k_max k) by (unfold g5_max_target, ac5_of; cbn; destruct (k_mode k); rewrite ?N.max_id; reflexivity).
  destruct (set_target5_spec (ac5_of k) m e (wf5_of k W)) as [_ [m5 [E5 R5]]]; try (rewrite ?L5min, ?L5max; assumption).
  rewrite E4, E5. cbn [same_meaning]. split; [reflexivity|]. eexists; eexists; (split; [exact R4|split; [exact R5|]]).
  unfold intent4, intent5. cbn. f_equal. f_equal. rewrite L5min, L5max.
  change (g4_min_target (ac4_of k)) with (k_min k). change (g4_max_target (ac4_of k)) with (k_max k).
  rewrite (round0_int m e He), (round1_int m e He). unfold clip. lia.
Qed.

(* ---- zones *)
Definition same_zone_meaning (o4 : outcome msg4) (o5 : outcome msg5) : Prop :=
  match o4, o5 with
  | Refused, Refused => True
  | Sent m4 p4, Sent m5 p5 =>
    p4 = p5 /\ exists s4 s5, reads_group4 m4 s4 /\ reads_zone5 m5 s5 /\ zintent4 s4 = zintent5 s5
  | _, _ => False
  end.

Theorem same_zone_power k p : kz_num k < 64 -> same_zone_meaning (zone_set_power4 (zone4_of k) p) (zone_set_power5 (zone5_of k) p).
Proof.
  intros Hn. pose proof (zone_set_power4_spec (zone4_of k) p ltac:(unfold z4_id, zone4_of; cbn; lia)) as S4.
  destruct (zone_set_power5_spec (zone5_of k) p ltac:(unfold z5_id, zone5_of; cbn; exact Hn)) as [m5 [E5 R5]].
  assert (match p with PZ_Turbo => gs_turbo (z4_status (zone4_of k)) | _ => true end = true) as Ht by (destruct p; reflexivity).
  rewrite Ht in S4. destruct S4 as [m4 [E4 R4]]. rewrite E4, E5. cbn [same_zone_meaning].
  split; [reflexivity|]. eexists; eexists; (split; [exact R4|split; [exact R5|reflexivity]]).
Qed.

Theorem same_zone_damper k p : kz_num k < 64 -> same_zone_meaning (zone_set_damper4 (zone4_of k) p) (zone_set_damper5 (zone5_of k) p).
Proof.
  intros Hn. pose proof (zone_set_damper4_spec (zone4_of k) p ltac:(unfold z4_id, zone4_of; cbn; lia)) as S4.
  pose proof (zone_set_damper5_spec (zone5_of k) p ltac:(unfold z5_id, zone5_of; cbn; exact Hn)) as S5.
  destruct ((p <? 0) || (100 <? p))%Z.
  - now rewrite S4, S5.
  - destruct S4 as [m4 [E4 R4]]. destruct S5 as [m5 [E5 R5]]. rewrite E4, E5. cbn [same_zone_meaning].
    split; [reflexivity|]. eexists; eexists; (split; [exact R4|split; [exact R5|reflexivity]]).
Qed.

(* a whole number of degrees both protocols can carry (10 .. 35 degC) *)
Theorem same_zone_target k m e : kz_num k < 64 -> (0 <= e)%Z -> (10 <= m * 2 ^ e <= 35)%Z ->
  same_zone_meaning (zone_set_target4 (zone4_of k) m e) (zone_set_target5 (zone5_of k) m e).
Proof.
  intros Hn He Hr.
  pose proof (zone_set_target4_spec (zone4_of k) m e ltac:(unfold z4_id, zone4_of; cbn; lia)) as S4.
  pose proof (zone_set_target5_spec (zone5_of k) m e ltac:(unfold z5_id, zone5_of; cbn; exact Hn)) as S5.
  change (gs_sensor (z4_status (zone4_of k))) with (kz_sensor k) in S4.
  change (zs_sensor (z5_status (zone5_of k))) with (kz_sensor k) in S5.
  destruct (kz_sensor k).
  - rewrite (round0_int m e He) in S4. rewrite (round1_int m e He) in S5.
    destruct (S4 ltac:(lia)) as [m4 [E4 R4]]. destruct (S5 ltac:(lia)) as [m5 [E5 R5]]. rewrite E4, E5. cbn [same_zone_meaning].
    split; [reflexivity|]. eexists; eexists; (split; [exact R4|split; [exact R5|reflexivity]]).
  - now rewrite S4, S5.
Qed.

(* the control-method part of a zone set-point / damper request is NOT the same: AirTouch 4
   also switches the zone to the control method the setting implies, AirTouch 5 keeps it
   (the AT5 zone control message of the package has no control-type field) *)
Theorem zone_method_differs :
  let k := mkKZone 1 [] ZPS_On ZMS_Damper true Bat_Normal (Some 215%Z) 50 22 false in
  exists m4 m5 s4 s5 p, zone_set_damper4 (zone4_of k) 40 = Sent m4 p /\ zone_set_damper5 (zone5_of k) 40 = Sent m5 p /\
    reads_group4 m4 s4 /\ reads_zone5 m5 s5 /\ sgc_method s4 = SetTo ByPercentage /\ szc_method s5 = Keep.
Proof.
  cbn zeta. eexists. eexists. eexists. eexists. eexists. split; [reflexivity|]. split; [reflexivity|].
  split; [eexists; eexists; eexists; repeat split; reflexivity|]. split; [eexists; eexists; eexists; repeat split; reflexivity|].
  split; reflexivity.
Qed.
