(* Client4.v — the AirTouch 4 client: Core.v instantiated with the AT4 record types, the
   classification of received messages (AirTouch4._message_received), the zone-to-AC
   association (_process_ac_ability_message) and dataclass equality.  No proofs here. *)
From Coq Require Import NArith ZArith List Bool.
From PV Require Import base.Res stream.Stream at4.Msg4 at4.Codec4 api.ApiTypes api.Api4 api.Core.
Import ListNotations.
Open Scope N_scope.

(* ---- dataclass equality *)
Definition optN_eqb (a b : option N) : bool := match a, b with Some x, Some y => x =? y | None, None => true | _, _ => false end.
Definition optZ_eqb (a b : option Z) : bool := match a, b with Some x, Some y => (x =? y)%Z | None, None => true | _, _ => false end.
Definition group_status_eqb (a b : group_status) : bool :=
  (gs_group a =? gs_group b) && (gpower_code (gs_power a) =? gpower_code (gs_power b)) &&
  (gmethod_code (gs_method a) =? gmethod_code (gs_method b)) && Bool.eqb (gs_spill a) (gs_spill b) &&
  Bool.eqb (gs_turbo a) (gs_turbo b) && Bool.eqb (gs_sensor a) (gs_sensor b) &&
  (battery_code (gs_battery a) =? battery_code (gs_battery b)) && optZ_eqb (gs_temp a) (gs_temp b) &&
  (gs_damper a =? gs_damper b) && optN_eqb (gs_setpoint a) (gs_setpoint b).
Definition ac_status_eqb (a b : ac_status) : bool :=
  (as_number a =? as_number b) && (apower_code (as_power a) =? apower_code (as_power b)) &&
  (amode_code (as_mode a) =? amode_code (as_mode b)) && (afan_code (as_fan a) =? afan_code (as_fan b)) &&
  Bool.eqb (as_spill a) (as_spill b) && Bool.eqb (as_timer a) (as_timer b) && (as_setpoint a =? as_setpoint b) &&
  (as_temp a =? as_temp b)%Z && (as_error a =? as_error b).
Definition timer_state_eqb (a b : timer_state) : bool :=
  Bool.eqb (ts_disabled a) (ts_disabled b) && (ts_hour a =? ts_hour b) && (ts_minute a =? ts_minute b).
Definition timer_data_eqb (a b : timer_data) : bool :=
  (td_number a =? td_number b) && timer_state_eqb (td_on a) (td_on b) && timer_state_eqb (td_off a) (td_off b).

(* ---- the records an object is created with *)
Definition group_status_init (g : N) : group_status :=
  mkGS g GPS_Off GMS_Damper false false false Bat_Normal (Some 0%Z) 0 None.
Definition ac_status_init (n : N) : ac_status := mkAS n APS_Off AMS_Auto AFS_Auto false false 0 0%Z 0.
Definition timer_init (n : N) : timer_data := mkTD n (mkTS true 0 0) (mkTS true 0 0).

(* ---- zones of an AC: the group display bitmap if present; every zone if this is the only
   AC; otherwise start .. start+count-1.  A group number without a name is a KeyError. *)
Definition known (ids : list N) (g : N) : bool := existsb (N.eqb g) ids.
Definition range_from (start count : N) : list N := map (fun i => start + N.of_nat i) (seq 0 (N.to_nat count)).
Definition assign4 (all : list ability) (zone_ids : list N) (ab : ability) : option (list N) :=
  match ab_groups ab with
  | Some gs => if forallb (known zone_ids) gs then Some gs else None
  | None =>
    if Nat.eqb (length all) 1 then Some zone_ids
    else let r := range_from (ab_start ab) (ab_count ab) in
         if forallb (known zone_ids) r then Some r else None
  end.

Definition client4 := client group_status ac_status ability timer_data.
Definition event4 := event group_status ac_status ability timer_data.

(* ---- AirTouch4._message_received: what a delivered message is to the client *)
Definition event_of4 (m : msg4) : event4 :=
  match m with
  | M_Ext (S_Version u vs) => EvVersion _ _ _ _ u vs
  | M_Ext (S_Names l) => EvNames _ _ _ _ l
  | M_Ext (S_Ability l) => EvAbility _ _ _ _ l
  | M_AcStatus l => EvAcStatus _ _ _ _ l
  | M_TimerStatus l => EvTimer _ _ _ _ l
  | M_GroupStatus l => EvZoneStatus _ _ _ _ l
  | M_Ext (S_ErrMsg ac info) => EvErrInfo _ _ _ _ ac info
  | _ => EvOther _ _ _ _
  end.

Definition on_event4 : client4 -> event4 -> client4 * list out :=
  on_event _ _ _ _ gs_group as_number ab_number td_number group_status_eqb ac_status_eqb timer_data_eqb
           (fun s => negb (as_error s =? 0)) group_status_init ac_status_init timer_init assign4.
Definition on_message4 (c : client4) (h : hdr) (m : msg4) : client4 * list out := on_event4 c (event_of4 m).
Definition empty4 : client4 := empty _ _ _ _ true.

Definition to_ac4 (a : aircon ac_status ability timer_data) : ac4 := mkAc4 (a_ability _ _ _ a) (a_status _ _ _ a) (a_timer _ _ _ a) (a_err _ _ _ a).
Definition to_zone4 (z : zone group_status) : zone4 := mkZone4 (z_name _ z) (z_status _ z).
