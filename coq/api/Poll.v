(* Poll.v — model of AirTouch4._group_status_request_loop (at4/api.py): while the client is
   initialised, a deadline 300 s after the last group status (or the last poll); when it
   passes, a group status request is sent if the socket is connected, and the deadline is
   armed again.  Time in ticks (Z); the period is a parameter.  No proofs here. *)
From Coq Require Import ZArith List Bool.
Import ListNotations.
Open Scope Z_scope.

Record pstate := mkP { p_run : bool; p_dead : Z; p_now : Z }.

Inductive pop :=
| PStart                              (* the handshake completed: the task is created *)
| PStop                               (* shutdown(): the task is cancelled *)
| PSeen                               (* a group status message arrives in the CONNECTED state *)
| PAdv (dt : Z) (connected : bool).   (* time passes, at most up to the deadline; connectivity there *)

Inductive pev := PRequest (t : Z) | PTime (t : Z).

Definition pinit : pstate := mkP false 0 0.

Section Params.
  Variable period : Z.

  Definition pstep (s : pstate) (o : pop) : pstate * list pev :=
    match o with
    | PStart => (mkP true (p_now s + period) (p_now s), [])
    | PStop => (mkP false (p_dead s) (p_now s), [])
    | PSeen => if p_run s then (mkP true (p_now s + period) (p_now s), []) else (s, [])
    | PAdv dt c =>
      let horizon := p_now s + dt in
      if negb (p_run s) then (mkP false (p_dead s) horizon, [PTime horizon])
      else if p_dead s <=? horizon then
        (mkP true (p_dead s + period) (p_dead s), (if c then [PRequest (p_dead s)] else []) ++ [PTime (p_dead s)])
      else (mkP true (p_dead s) horizon, [PTime horizon])
    end.

  Fixpoint prun (s : pstate) (ops : list pop) : pstate * list pev :=
    match ops with
    | [] => (s, [])
    | o :: r => let '(s1, e1) := pstep s o in let '(s2, e2) := prun s1 r in (s2, e1 ++ e2)
    end.
End Params.
