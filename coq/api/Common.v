(* Common.v — C19: an installation state expressible in both protocol generations, its
   rendering as AirTouch 4 and as AirTouch 5 records, and the view of each API object on the
   attributes both generations support.  No proofs here. *)
From Coq Require Import NArith ZArith List Bool.
From PV Require Import base.Res at4.Msg4 at5.Msg5 spec.Spec4 spec.Spec5 api.ApiTypes api.Api4 api.Api5.
Import ListNotations.
Open Scope N_scope.

(* ---- an air-conditioner both consoles can describe: common modes and fan speeds, whole-degree
   set-point, one [min, max] for every mode, no away/sleep, no bypass, no intelligent auto *)
Record kac := mkKAc {
  k_num : N; k_name : list N;
  k_modes : list bool;          (* AUTO HEAT DRY FAN COOL *)
  k_fans : list bool;           (* AUTO QUIET LOW MEDIUM HIGH POWERFUL TURBO *)
  k_min : N; k_max : N;
  k_on : bool; k_mode : amode; k_fan : afan; k_spill : bool; k_timer_set : bool;
  k_setpoint : N;               (* whole degrees *)
  k_temp : Z;                   (* tenths *)
  k_error : N;
  k_timers : timer_data; k_errtext : option (list N) }.

Definition fan5_of (f : afan) : a5fan :=
  match f with AFS_Auto => A5FS_Auto | AFS_Quiet => A5FS_Quiet | AFS_Low => A5FS_Low | AFS_Medium => A5FS_Medium
             | AFS_High => A5FS_High | AFS_Powerful => A5FS_Powerful | AFS_Turbo => A5FS_Turbo end.

Definition ac4_of (k : kac) : ac4 :=
  mkAc4 (mkAb (k_num k) (k_name k) (k_modes k) (k_fans k) (k_min k) (k_max k) None 0 0)
        (mkAS (k_num k) (if k_on k then APS_On else APS_Off) (k_mode k) (k_fan k) (k_spill k) (k_timer_set k)
              (k_setpoint k) (k_temp k) (k_error k))
        (k_timers k) (k_errtext k).
Definition ac5_of (k : kac) : ac5 :=
  mkAc5 (mkAb5 (k_num k) (k_name k) 0 0 (k_modes k) (k_fans k ++ [false]) (k_min k) (k_max k) (k_min k) (k_max k))
        (mkA5S (k_num k) (if k_on k then A5S_On else A5S_Off) (k_mode k) (fan5_of (k_fan k)) false false (k_spill k)
               (k_timer_set k) (Z.of_N (k_setpoint k) * 10)%Z (k_temp k) (k_error k))
        (k_timers k) (k_errtext k).

(* every attribute of the unified AirConditioner API both generations support (temperatures
   in tenths) *)
Record ac_view := mkAcView {
  v_power : p_ac_power; v_selected_mode : p_mode; v_active_mode : p_mode; v_selected_fan : p_fan; v_active_fan : p_fan;
  v_current : Z; v_target : Z; v_min : Z; v_max : Z; v_spill : p_spill;
  v_timer_off : option (option (N * N)); v_timer_on : option (option (N * N));
  v_error : option (N * option (list N)); v_modes : list p_mode; v_fans : list p_fan }.

Definition view4 (a : ac4) : ac_view :=
  mkAcView (g4_power_state a) (g4_selected_mode a) (g4_active_mode a) (g4_selected_fan a) (g4_active_fan a)
           (g4_current_temp a) (Z.of_N (g4_target_temp a) * 10) (Z.of_N (g4_min_target a) * 10) (Z.of_N (g4_max_target a) * 10)
           (g4_spill a) (g4_next_timer a PT_Off) (g4_next_timer a PT_On) (g4_error_info a)
           (supported_modes4 a) (supported_fans4 a).
Definition view5 (a : ac5) : ac_view :=
  mkAcView (g5_power_state a) (g5_selected_mode a) (g5_active_mode a) (g5_selected_fan a) (g5_active_fan a)
           (g5_current_temp a) (g5_target_temp a) (Z.of_N (g5_min_target a) * 10) (Z.of_N (g5_max_target a) * 10)
           (g5_spill a) (g5_next_timer a PT_Off) (g5_next_timer a PT_On) (g5_error_info a)
           (supported_modes5 a) (supported_fans5 a).

(* ---- a zone both consoles can describe: turbo-capable, whole-degree set-point present
   exactly when there is a sensor *)
Record kzone := mkKZone {
  kz_num : N; kz_name : list N; kz_power : zpower; kz_method : zmethod; kz_sensor : bool; kz_battery : battery;
  kz_temp : option Z; kz_damper : N; kz_setpoint : N; kz_spill : bool }.

Definition gpower_of (p : zpower) : gpower := match p with ZPS_Off => GPS_Off | ZPS_On => GPS_On | ZPS_Turbo => GPS_Turbo end.
Definition gmethod_of' (m : zmethod) : gmethod := match m with ZMS_Damper => GMS_Damper | ZMS_Temperature => GMS_Temperature end.

Definition zone4_of (k : kzone) : zone4 :=
  mkZone4 (kz_name k)
          (mkGS (kz_num k) (gpower_of (kz_power k)) (gmethod_of' (kz_method k)) (kz_spill k) true (kz_sensor k) (kz_battery k)
                (if kz_sensor k then kz_temp k else None) (kz_damper k) (if kz_sensor k then Some (kz_setpoint k) else None)).
Definition zone5_of (k : kzone) : zone5 :=
  mkZone5 (kz_name k)
          (mkZS (kz_num k) (kz_power k) (kz_spill k) (kz_method k) (kz_sensor k) (kz_battery k)
                (if kz_sensor k then kz_temp k else None) (kz_damper k)
                (if kz_sensor k then Some (Z.of_N (kz_setpoint k) * 10)%Z else None)).

Record zone_view := mkZoneView {
  zv_supported : list p_zpower; zv_power : p_zpower; zv_method : p_zmethod; zv_sensor : bool; zv_battery : p_battery;
  zv_current : option Z; zv_target : option Z; zv_damper : N; zv_spill : bool }.
Definition zview4 (z : zone4) : zone_view :=
  mkZoneView (gz4_supported_power z) (gz4_power_state z) (gz4_method z) (gz4_has_sensor z) (gz4_battery z)
             (gz4_current_temp z) (option_map (fun v => Z.of_N v * 10)%Z (gz4_target_temp z)) (gz4_damper z) (gz4_spill z).
Definition zview5 (z : zone5) : zone_view :=
  mkZoneView (gz5_supported_power z) (gz5_power_state z) (gz5_method z) (gz5_has_sensor z) (gz5_battery z)
             (gz5_current_temp z) (gz5_target_temp z) (gz5_damper z) (gz5_spill z).

(* ---- what a command frame asks for, in terms common to both documents *)
Record ac_intent := mkAcIntent { i_ac : N; i_power : change onoff; i_mode : change amode; i_fan : change afan; i_setpoint : change Z }.
Definition intent4 (s : sac_ctrl) : ac_intent := mkAcIntent (sac_number s) (sac_power s) (sac_mode s) (sac_fan s) (sac_setpoint s).
Definition fan_common (c : change fan5) : change afan :=
  match c with
  | Keep => Keep | Toggle => Toggle | Decrease => Decrease | Increase => Increase | NotDefined => NotDefined
  | SetTo (F5 f) => SetTo f | SetTo F5IntelligentAuto => NotDefined
  end.
Definition intent5 (s : sac5_ctrl) : ac_intent := mkAcIntent (s5c_index s) (s5c_power s) (s5c_mode s) (fan_common (s5c_fan s)) (s5c_setpoint s).

(* zone commands: the value and power parts (the control-method part differs, see C19) *)
Record zone_intent := mkZoneIntent { iz_zone : N; iz_value : change zone_value; iz_power : change zone_power }.
Definition zintent4 (s : sgroup_ctrl) : zone_intent := mkZoneIntent (sgc_group s) (sgc_value s) (sgc_power s).
Definition zintent5 (s : szone_ctrl) : zone_intent := mkZoneIntent (szc_zone s) (szc_value s) (szc_power s).
