(* Api4.v — model of the AirTouch 4 API objects (at4/api.py): translation tables, getters of
   At4AirConditioner / At4Zone, and the public control calls with their validation, value
   shaping and retry policy.  Objects are the raw records they keep (ability, latest
   status, latest timer report, error text).  No proofs here. *)
From Coq Require Import NArith ZArith List Bool.
From PV Require Import base.Res at4.Msg4 api.ApiTypes.
Import ListNotations.
Open Scope N_scope.

Record ac4 := mkAc4 { a4_ability : ability; a4_status : ac_status; a4_timer : timer_data; a4_err : option (list N) }.
Record zone4 := mkZone4 { z4_name : list N; z4_status : group_status }.

Definition a4_id (a : ac4) : N := as_number (a4_status a).
Definition z4_id (z : zone4) : N := gs_group (z4_status z).

(* ------------------------------------------------------------------ tables *)
Definition ac_power_state4 (p : apower) : p_ac_power := match p with APS_Off => PA_Off | APS_On => PA_On end.
Definition selected_mode4 (m : amode) : p_mode :=
  match m with AMS_Auto => PM_Auto | AMS_Heat => PM_Heat | AMS_Dry => PM_Dry | AMS_Fan => PM_Fan | AMS_Cool => PM_Cool
             | AMS_AutoHeat => PM_Auto | AMS_AutoCool => PM_Auto end.
Definition active_mode4 (m : amode) : p_mode :=
  match m with AMS_Auto => PM_Auto | AMS_Heat => PM_Heat | AMS_Dry => PM_Dry | AMS_Fan => PM_Fan | AMS_Cool => PM_Cool
             | AMS_AutoHeat => PM_Heat | AMS_AutoCool => PM_Cool end.
Definition fan_speed4 (f : afan) : p_fan :=
  match f with AFS_Auto => PF_Auto | AFS_Quiet => PF_Quiet | AFS_Low => PF_Low | AFS_Medium => PF_Medium
             | AFS_High => PF_High | AFS_Powerful => PF_Powerful | AFS_Turbo => PF_Turbo end.

Definition api_power_ctl4 (p : p_power_ctl) : option apower_ctl :=
  match p with PC_Toggle => Some AP_Toggle | PC_Off => Some AP_Off | PC_On => Some AP_On | _ => None end.
Definition api_mode_ctl4 (m : p_mode) : amode_ctl :=
  match m with PM_Auto => AM_Auto | PM_Heat => AM_Heat | PM_Dry => AM_Dry | PM_Fan => AM_Fan | PM_Cool => AM_Cool end.
Definition api_fan_ctl4 (f : p_fan) : option afan_ctl :=
  match f with PF_Auto => Some AF_Auto | PF_Quiet => Some AF_Quiet | PF_Low => Some AF_Low | PF_Medium => Some AF_Medium
             | PF_High => Some AF_High | PF_Powerful => Some AF_Powerful | PF_Turbo => Some AF_Turbo
             | PF_IntelligentAuto => None end.
Definition api_timer_type4 (t : p_timer) : timer_type := match t with PT_Off => TT_Off | PT_On => TT_On end.

Definition zone_power_state4 (p : gpower) : p_zpower := match p with GPS_Off => PZ_Off | GPS_On => PZ_On | GPS_Turbo => PZ_Turbo end.
Definition api_zone_power4 (p : p_zpower) : gpower_ctl := match p with PZ_Off => GP_Off | PZ_On => GP_On | PZ_Turbo => GP_Turbo end.
Definition zone_method4 (m : gmethod) : p_zmethod := match m with GMS_Damper => PZM_Damper | GMS_Temperature => PZM_Temperature end.
Definition battery4 (b : battery) : p_battery := match b with Bat_Normal => PB_Normal | Bat_Low => PB_Low end.

(* ------------------------------------------------- supported controls (AC) *)
Definition all_modes : list p_mode := [PM_Auto; PM_Heat; PM_Dry; PM_Fan; PM_Cool].
Definition all_fans4 : list p_fan := [PF_Auto; PF_Quiet; PF_Low; PF_Medium; PF_High; PF_Powerful; PF_Turbo].

Definition supported_power_controls4 : list p_power_ctl := [PC_Toggle; PC_Off; PC_On].
(* ability bit lists are in the order AUTO HEAT DRY FAN COOL / AUTO QUIET LOW MEDIUM HIGH POWERFUL TURBO *)
Definition supported_modes4 (a : ac4) : list p_mode :=
  map fst (filter snd (combine all_modes (ab_modes (a4_ability a)))).
Definition supported_fans4 (a : ac4) : list p_fan :=
  map fst (filter snd (combine all_fans4 (ab_fans (a4_ability a)))).

Definition mode_eqb (x y : p_mode) : bool := Z.eqb (p_mode_ix x) (p_mode_ix y).
Definition fan_eqb (x y : p_fan) : bool := Z.eqb (p_fan_ix x) (p_fan_ix y).
Definition power_ctl_eqb (x y : p_power_ctl) : bool := Z.eqb (p_power_ctl_ix x) (p_power_ctl_ix y).
Definition zpower_eqb (x y : p_zpower) : bool := Z.eqb (p_zpower_ix x) (p_zpower_ix y).

(* ----------------------------------------------------------- getters (AC) *)
Definition g4_power_state (a : ac4) : p_ac_power := ac_power_state4 (as_power (a4_status a)).
Definition g4_selected_mode (a : ac4) : p_mode := selected_mode4 (as_mode (a4_status a)).
Definition g4_active_mode (a : ac4) : p_mode := active_mode4 (as_mode (a4_status a)).
Definition g4_selected_fan (a : ac4) : p_fan := fan_speed4 (as_fan (a4_status a)).
Definition g4_active_fan (a : ac4) : p_fan := fan_speed4 (as_fan (a4_status a)).
Definition g4_current_temp (a : ac4) : Z := as_temp (a4_status a).                 (* tenths *)
Definition g4_target_temp (a : ac4) : N := as_setpoint (a4_status a).              (* degrees *)
Definition g4_min_target (a : ac4) : N := ab_min (a4_ability a).
Definition g4_max_target (a : ac4) : N := ab_max (a4_ability a).
Definition g4_spill (a : ac4) : p_spill := if as_spill (a4_status a) then PS_Spill else PS_None.
(* next_quick_timer: None = disabled; datetime.time raises ValueError beyond 23:59 *)
Definition g4_next_timer (a : ac4) (t : p_timer) : option (option (N * N)) :=
  let s := match t with PT_Off => td_off (a4_timer a) | PT_On => td_on (a4_timer a) end in
  if ts_disabled s then Some None
  else if (ts_hour s <? 24) && (ts_minute s <? 60) then Some (Some (ts_hour s, ts_minute s)) else None.
Definition g4_error_info (a : ac4) : option (N * option (list N)) :=
  if as_error (a4_status a) =? 0 then None else Some (as_error (a4_status a), a4_err a).

(* --------------------------------------------------------- getters (zone) *)
Definition gz4_supported_power (z : zone4) : list p_zpower :=
  [PZ_Off; PZ_On] ++ (if gs_turbo (z4_status z) then [PZ_Turbo] else []).
Definition gz4_power_state (z : zone4) : p_zpower := zone_power_state4 (gs_power (z4_status z)).
Definition gz4_method (z : zone4) : p_zmethod := zone_method4 (gs_method (z4_status z)).
Definition gz4_has_sensor (z : zone4) : bool := gs_sensor (z4_status z).
Definition gz4_battery (z : zone4) : p_battery := battery4 (gs_battery (z4_status z)).
Definition gz4_current_temp (z : zone4) : option Z := gs_temp (z4_status z).
Definition gz4_target_temp (z : zone4) : option N := gs_setpoint (z4_status z).
Definition gz4_damper (z : zone4) : N := gs_damper (z4_status z).
Definition gz4_spill (z : zone4) : bool := gs_spill (z4_status z).

(* ------------------------------------------------------- control calls (AC) *)
(* _send_ac_control_message: toggles and +-1 steps are not idempotent *)
Definition ac_ctrl_policy4 (c : ac_ctrl) : policy :=
  match ac_sp c, ac_power c with
  | AS_Dec, _ | AS_Inc, _ => P_NonIdempotent
  | _, AP_Toggle => P_NonIdempotent
  | _, _ => P_Idempotent
  end.
Definition send_ac_ctrl4 (a : ac4) (pw : apower_ctl) (mo : amode_ctl) (fa : afan_ctl) (sp : asetpoint_ctl) : outcome msg4 :=
  let c := mkAC (a4_id a) pw mo fa sp in Sent (M_AcCtrl c) (ac_ctrl_policy4 c).

Definition set_power4 (a : ac4) (p : p_power_ctl) : outcome msg4 :=
  if existsb (power_ctl_eqb p) supported_power_controls4 then
    match api_power_ctl4 p with
    | Some pw => send_ac_ctrl4 a pw AM_Unchanged AF_Unchanged AS_None
    | None => Refused                 (* unreachable: KeyError *)
    end
  else Refused.

Definition set_mode4 (a : ac4) (m : p_mode) (power_on : bool) : outcome msg4 :=
  if existsb (mode_eqb m) (supported_modes4 a)
  then send_ac_ctrl4 a (if power_on then AP_On else AP_Unchanged) (api_mode_ctl4 m) AF_Unchanged AS_None
  else Refused.

Definition set_fan4 (a : ac4) (f : p_fan) : outcome msg4 :=
  if existsb (fan_eqb f) (supported_fans4 a) then
    match api_fan_ctl4 f with
    | Some fc => send_ac_ctrl4 a AP_Unchanged AM_Unchanged fc AS_None
    | None => Refused
    end
  else Refused.

(* set_target_temperature(x), x = m * 2^e: round, clip into [min, max], send *)
Definition set_target4 (a : ac4) (m e : Z) : outcome msg4 :=
  let v := clip (Z.of_N (g4_min_target a)) (Z.of_N (g4_max_target a)) (round0 m e) in
  send_ac_ctrl4 a AP_Unchanged AM_Unchanged AF_Unchanged (AS_Value (Z.to_N v)).

(* quick timers: a duration goes out as a quick-timer message, a time of day as a timer
   control record in which the other timer is the one last reported *)
Definition timer_ctrl4 (a : ac4) (t : p_timer) (s : timer_state) : outcome msg4 :=
  let on_ := match t with PT_On => s | PT_Off => td_on (a4_timer a) end in
  let off_ := match t with PT_Off => s | PT_On => td_off (a4_timer a) end in
  Sent (M_TimerCtrl [mkTD (a4_id a) on_ off_]) P_Idempotent.
Definition set_timer_duration4 (a : ac4) (t : p_timer) (minutes : N) : outcome msg4 :=
  Sent (M_Ext (S_QuickTimer (a4_id a) (api_timer_type4 t) minutes)) P_Idempotent.
Definition set_timer_time4 (a : ac4) (t : p_timer) (hour minute : N) : outcome msg4 :=
  timer_ctrl4 a t (mkTS false hour minute).
Definition clear_timer4 (a : ac4) (t : p_timer) : outcome msg4 := timer_ctrl4 a t (mkTS true 0 0).

Definition check_updates4 : outcome msg4 := Sent (M_Ext S_VersionReq) P_Idempotent.

(* ----------------------------------------------------- control calls (zone) *)
Definition group_ctrl_policy4 (c : group_ctrl) : policy :=
  match gc_setting c, gc_method c with
  | GS_Dec, _ | GS_Inc, _ => P_NonIdempotent
  | _, GM_Change => P_NonIdempotent
  | _, _ => P_Idempotent
  end.
Definition send_group_ctrl4 (z : zone4) (pw : gpower_ctl) (me : gmethod_ctl) (st : gsetting) : outcome msg4 :=
  let c := mkGC (z4_id z) pw me st in Sent (M_GroupCtrl c) (group_ctrl_policy4 c).

Definition zone_set_power4 (z : zone4) (p : p_zpower) : outcome msg4 :=
  if existsb (zpower_eqb p) (gz4_supported_power z)
  then send_group_ctrl4 z (api_zone_power4 p) GM_Unchanged GS_None else Refused.

(* set_target_temperature: needs a sensor; rounded, not clamped; a value that does not fit
   a byte cannot be sent *)
Definition zone_set_target4 (z : zone4) (m e : Z) : outcome msg4 :=
  if gz4_has_sensor z then
    let v := round0 m e in
    if (0 <=? v)%Z && (v <? 256)%Z then send_group_ctrl4 z GP_Unchanged GM_Temperature (GS_SetPoint (Z.to_N v))
    else Unsendable
  else Refused.

Definition zone_set_damper4 (z : zone4) (p : Z) : outcome msg4 :=
  if (p <? 0)%Z || (100 <? p)%Z then Refused
  else send_group_ctrl4 z GP_Unchanged GM_Damper (GS_Damper (Z.to_N p)).
