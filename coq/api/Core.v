(* Core.v — the generation-independent core of the AirTouch client (at4/api.py and
   at5/api.py share this structure): the initialisation state machine, the object model
   ("latest report wins"), subscriber notification, refresh on reconnection.
   Generation-specific parts (message classification, record types, zone assignment,
   translation tables, command shaping) are parameters.  No proofs here. *)
From Coq Require Import NArith ZArith List Bool.
Import ListNotations.
Open Scope N_scope.

Inductive astate :=
| Closed | Connecting | InitVersion | InitNames | InitAbility | InitAcStatus | InitTimer | InitZoneStatus
| Connected.

(* the requests the client issues by itself *)
Inductive req := RVersion | RNames | RAbility | RAcStatus | RTimer | RZoneStatus | RErrInfo (ac : N).

Section Core.
  Variables ZS AS AB TD : Type.            (* zone status, AC status, AC ability, timer records *)
  Variable zs_id : ZS -> N.
  Variable as_id : AS -> N.
  Variable ab_id : AB -> N.
  Variable td_id : TD -> N.
  Variable zs_eqb : ZS -> ZS -> bool.      (* dataclass equality *)
  Variable as_eqb : AS -> AS -> bool.
  Variable td_eqb : TD -> TD -> bool.
  Variable as_has_error : AS -> bool.
  Variable zs_init : N -> ZS.              (* the records an object is created with *)
  Variable as_init : N -> AS.
  Variable td_init : N -> TD.
  (* zones of an AC given all abilities of the message and the known zone ids (dict
     order); None = KeyError *)
  Variable assign : list AB -> list N -> AB -> option (list N).

  (* what a received message means to the client *)
  Inductive event :=
  | EvVersion (update : bool) (versions : list (list N))
  | EvNames (l : list (N * list N))
  | EvNamesEcho (to_client : bool)         (* AT5: the names request echoed back *)
  | EvAbility (l : list AB)
  | EvAcStatus (l : list AS)
  | EvTimer (l : list TD)
  | EvZoneStatus (l : list ZS)
  | EvZoneStatusEcho (to_client : bool)    (* AT5: the zone status request echoed back *)
  | EvErrInfo (ac : N) (info : option (list N))
  | EvOther.

  Record zone := mkZone { z_id : N; z_name : list N; z_status : ZS; z_subs : list nat }.
  Record aircon := mkAc {
    a_id : N; a_ability : AB; a_status : AS; a_timer : TD; a_err : option (list N);
    a_zones : list N;
    a_subs : list nat;          (* general subscribers *)
    a_subs_state : list nat }.  (* AC-state-only subscribers *)

  Record client := mkClient {
    c_state : astate;
    c_version : bool * list (list N);
    c_zones : list zone;        (* dict, insertion order *)
    c_acs : list aircon;        (* dict, insertion order *)
    c_initialised : bool;
    c_subs : list nat;          (* AirTouch-level subscribers *)
    c_hb_started : bool;
    c_uses_poll : bool }.       (* AT4: group status poll task *)

  Inductive out :=
  | OSendReq (r : req)                       (* sent with the connected-only policy *)
  | ONotifyZone (sub : nat) (zone : N)
  | ONotifyAc (sub : nat) (ac : N)
  | ONotifyAirTouch (sub : nat)
  | OStartHeartbeat
  | OStartPoll
  | OPollReset                                (* AT4: a group status re-arms the 300 s poll deadline *)
  | OInitialised.

  Definition empty (poll : bool) : client :=
    mkClient Closed (false, []) [] [] false [] false poll.

  (* ---------------------------------------------------------------- dict helpers *)
  Fixpoint set_zone (zs : list zone) (z : zone) : list zone :=
    match zs with
    | [] => [z]
    | x :: r => if z_id x =? z_id z then z :: r else x :: set_zone r z
    end.
  Fixpoint set_ac (acs : list aircon) (a : aircon) : list aircon :=
    match acs with
    | [] => [a]
    | x :: r => if a_id x =? a_id a then a :: r else x :: set_ac r a
    end.
  Definition find_zone (zs : list zone) (id : N) : option zone := find (fun z => z_id z =? id) zs.
  Definition find_ac (acs : list aircon) (id : N) : option aircon := find (fun a => a_id a =? id) acs.
  Definition nodup_nat (l : list nat) : list nat :=
    fold_left (fun acc x => if existsb (Nat.eqb x) acc then acc else acc ++ [x]) l [].

  (* ------------------------------------------------------------ object updates *)
  (* the AC that lists this zone (zone.subscribe(ac._zone_updated) at AC creation) *)
  Definition owners (acs : list aircon) (zid : N) : list aircon :=
    filter (fun a => existsb (N.eqb zid) (a_zones a)) acs.

  (* update_zone_status: store; if changed notify the zone's subscribers and, through
     the owning AC(s), the AC's general subscribers (not the AC-state-only ones) *)
  Definition update_zone (c_acs_ : list aircon) (z : zone) (s : ZS) : zone * list out :=
    let z' := mkZone (z_id z) (z_name z) s (z_subs z) in
    if zs_eqb (z_status z) s then (z', [])
    else (z', map (fun sub => ONotifyZone sub (z_id z)) (z_subs z) ++
              concat (map (fun a => map (fun sub => ONotifyAc sub (a_id a)) (a_subs a)) (owners c_acs_ (z_id z)))).

  Definition ac_all_subs (a : aircon) : list nat := nodup_nat (a_subs a ++ a_subs_state a).

  (* update_ac_status: store; if changed: request the error text when an error code is
     present, otherwise forget the text; notify general and AC-state subscribers *)
  Definition update_ac_status (a : aircon) (s : AS) : aircon * list out :=
    if as_eqb (a_status a) s
    then (mkAc (a_id a) (a_ability a) s (a_timer a) (a_err a) (a_zones a) (a_subs a) (a_subs_state a), [])
    else
      let err := if as_has_error s then a_err a else None in
      (mkAc (a_id a) (a_ability a) s (a_timer a) err (a_zones a) (a_subs a) (a_subs_state a),
       (if as_has_error s then [OSendReq (RErrInfo (a_id a))] else []) ++
       map (fun sub => ONotifyAc sub (a_id a)) (ac_all_subs a)).

  Definition update_ac_timer (a : aircon) (t : TD) : aircon * list out :=
    (mkAc (a_id a) (a_ability a) (a_status a) t (a_err a) (a_zones a) (a_subs a) (a_subs_state a),
     if td_eqb (a_timer a) t then [] else map (fun sub => ONotifyAc sub (a_id a)) (ac_all_subs a)).

  Definition opt_bytes_eqb (x y : option (list N)) : bool :=
    match x, y with
    | None, None => true
    | Some a, Some b => (Nat.eqb (length a) (length b)) && forallb (fun p => fst p =? snd p) (combine a b)
    | _, _ => false
    end.

  Definition update_ac_err (a : aircon) (info : option (list N)) : aircon * list out :=
    (mkAc (a_id a) (a_ability a) (a_status a) (a_timer a) info (a_zones a) (a_subs a) (a_subs_state a),
     if opt_bytes_eqb (a_err a) info then [] else map (fun sub => ONotifyAc sub (a_id a)) (ac_all_subs a)).

  (* process a status message record by record; unknown ids are ignored *)
  Fixpoint proc_zone_status (c : client) (l : list ZS) : client * list out :=
    match l with
    | [] => (c, [])
    | s :: r =>
      match find_zone (c_zones c) (zs_id s) with
      | Some z =>
        let '(z', o1) := update_zone (c_acs c) z s in
        let c1 := mkClient (c_state c) (c_version c) (set_zone (c_zones c) z') (c_acs c) (c_initialised c)
                           (c_subs c) (c_hb_started c) (c_uses_poll c) in
        let '(c2, o2) := proc_zone_status c1 r in (c2, o1 ++ o2)
      | None => proc_zone_status c r
      end
    end.

  Definition with_acs (c : client) (acs : list aircon) : client :=
    mkClient (c_state c) (c_version c) (c_zones c) acs (c_initialised c) (c_subs c) (c_hb_started c) (c_uses_poll c).

  Fixpoint proc_ac_status (c : client) (l : list AS) : client * list out :=
    match l with
    | [] => (c, [])
    | s :: r =>
      match find_ac (c_acs c) (as_id s) with
      | Some a => let '(a', o1) := update_ac_status a s in
                  let '(c2, o2) := proc_ac_status (with_acs c (set_ac (c_acs c) a')) r in (c2, o1 ++ o2)
      | None => proc_ac_status c r
      end
    end.

  Fixpoint proc_timer (c : client) (l : list TD) : client * list out :=
    match l with
    | [] => (c, [])
    | t :: r =>
      match find_ac (c_acs c) (td_id t) with
      | Some a => let '(a', o1) := update_ac_timer a t in
                  let '(c2, o2) := proc_timer (with_acs c (set_ac (c_acs c) a')) r in (c2, o1 ++ o2)
      | None => proc_timer c r
      end
    end.

  (* _process_*_names_message: a fresh zone object per entry (replacing one of that id) *)
  Definition proc_names (c : client) (l : list (N * list N)) : client :=
    mkClient (c_state c) (c_version c)
             (fold_left (fun zs e => set_zone zs (mkZone (fst e) (snd e) (zs_init (fst e)) [])) l (c_zones c))
             (c_acs c) (c_initialised c) (c_subs c) (c_hb_started c) (c_uses_poll c).

  (* _process_ac_ability_message: a fresh AC object per ability; stops at a KeyError *)
  Fixpoint proc_ability_from (all : list AB) (zone_ids : list N) (acs : list aircon) (l : list AB)
    : list aircon * bool :=
    match l with
    | [] => (acs, true)
    | ab :: r =>
      match assign all zone_ids ab with
      | Some zs =>
        proc_ability_from all zone_ids
          (set_ac acs (mkAc (ab_id ab) ab (as_init (ab_id ab)) (td_init (ab_id ab)) None zs [] [])) r
      | None => (acs, false)
      end
    end.

  Definition set_state (c : client) (s : astate) : client :=
    mkClient s (c_version c) (c_zones c) (c_acs c) (c_initialised c) (c_subs c) (c_hb_started c) (c_uses_poll c).

  Definition finish_init (c : client) : client * list out :=
    (mkClient Connected (c_version c) (c_zones c) (c_acs c) true (c_subs c) true (c_uses_poll c),
     [OStartHeartbeat] ++ (if c_uses_poll c then [OStartPoll] else []) ++ [OInitialised]).

  Definition version_eqb (a b : bool * list (list N)) : bool :=
    Bool.eqb (fst a) (fst b) && (Nat.eqb (length (snd a)) (length (snd b))) &&
    forallb (fun p => opt_bytes_eqb (Some (fst p)) (Some (snd p))) (combine (snd a) (snd b)).

  (* _message_received *)
  Definition on_event (c : client) (e : event) : client * list out :=
    match e, c_state c with
    | EvVersion u vs, InitVersion =>
      (mkClient InitNames (u, vs) (c_zones c) (c_acs c) (c_initialised c) (c_subs c) (c_hb_started c) (c_uses_poll c),
       [OSendReq RNames])
    | EvNames l, InitNames => (set_state (proc_names c l) InitAbility, [OSendReq RAbility])
    | EvNamesEcho true, InitNames => (set_state c InitAbility, [OSendReq RAbility])
    | EvAbility l, InitAbility =>
      let '(acs, ok) := proc_ability_from l (map z_id (c_zones c)) (c_acs c) l in
      if ok then (set_state (with_acs c acs) InitAcStatus, [OSendReq RAcStatus])
      else (with_acs c acs, [])                          (* exception in the handler: logged *)
    | EvAcStatus l, InitAcStatus =>
      let '(c1, o) := proc_ac_status c l in (set_state c1 InitTimer, o ++ [OSendReq RTimer])
    | EvTimer l, InitTimer =>
      let '(c1, o) := proc_timer c l in (set_state c1 InitZoneStatus, o ++ [OSendReq RZoneStatus])
    | EvZoneStatus l, InitZoneStatus =>
      let '(c1, o) := proc_zone_status c l in let '(c2, o2) := finish_init c1 in (c2, o ++ o2)
    | EvZoneStatusEcho true, InitZoneStatus => finish_init c
    | EvAcStatus l, Connected => proc_ac_status c l
    | EvTimer l, Connected => proc_timer c l
    | EvZoneStatus l, Connected =>
      let '(c1, o) := proc_zone_status c l in (c1, (if c_uses_poll c then [OPollReset] else []) ++ o)
    | EvVersion u vs, Connected =>
      (mkClient Connected (u, vs) (c_zones c) (c_acs c) (c_initialised c) (c_subs c) (c_hb_started c) (c_uses_poll c),
       if version_eqb (c_version c) (u, vs) then [] else map ONotifyAirTouch (c_subs c))
    | EvErrInfo ac info, _ =>
      match find_ac (c_acs c) ac with
      | Some a => let '(a', o) := update_ac_err a info in (with_acs c (set_ac (c_acs c) a'), o)
      | None => (c, [])
      end
    | _, _ => (c, [])
    end.

  (* _connection_changed(connected=True) *)
  Definition on_connected (c : client) : client * list out :=
    match c_state c with
    | Connecting => (set_state c InitVersion, [OSendReq RVersion])
    | _ => (c, [OSendReq RAcStatus; OSendReq RZoneStatus])
    end.

  (* init(): state, subscriptions, open the socket (the 5 s wait is in the composition) *)
  Definition on_init (c : client) : client := set_state c Connecting.

  (* shutdown(): state closed, event cleared, model emptied *)
  Definition on_shutdown (c : client) : client :=
    mkClient Closed (c_version c) [] [] false (c_subs c) false (c_uses_poll c).

  (* ------------------------------------------------------------ subscriptions *)
  (* subscriber sets: add is idempotent, discard removes *)
  Definition add_sub (l : list nat) (s : nat) : list nat := if existsb (Nat.eqb s) l then l else l ++ [s].
  Definition del_sub (l : list nat) (s : nat) : list nat := filter (fun x => negb (Nat.eqb x s)) l.

  Inductive subop :=
  | SubZone (z : N) (s : nat) | UnsubZone (z : N) (s : nat)
  | SubAc (a : N) (s : nat) | UnsubAc (a : N) (s : nat)
  | SubAcState (a : N) (s : nat) | UnsubAcState (a : N) (s : nat)
  | SubAirTouch (s : nat) | UnsubAirTouch (s : nat).

  Definition map_zone (c : client) (zid : N) (f : list nat -> list nat) : client :=
    mkClient (c_state c) (c_version c)
             (map (fun z => if z_id z =? zid then mkZone (z_id z) (z_name z) (z_status z) (f (z_subs z)) else z) (c_zones c))
             (c_acs c) (c_initialised c) (c_subs c) (c_hb_started c) (c_uses_poll c).
  Definition map_ac (c : client) (aid : N) (f g : list nat -> list nat) : client :=
    with_acs c (map (fun a => if a_id a =? aid
                              then mkAc (a_id a) (a_ability a) (a_status a) (a_timer a) (a_err a) (a_zones a)
                                        (f (a_subs a)) (g (a_subs_state a))
                              else a) (c_acs c)).
  Definition apply_subop (c : client) (op : subop) : client :=
    match op with
    | SubZone z s => map_zone c z (fun l => add_sub l s)
    | UnsubZone z s => map_zone c z (fun l => del_sub l s)
    | SubAc a s => map_ac c a (fun l => add_sub l s) (fun l => l)
    | UnsubAc a s => map_ac c a (fun l => del_sub l s) (fun l => l)
    | SubAcState a s => map_ac c a (fun l => l) (fun l => add_sub l s)
    | UnsubAcState a s => map_ac c a (fun l => l) (fun l => del_sub l s)
    | SubAirTouch s =>
      mkClient (c_state c) (c_version c) (c_zones c) (c_acs c) (c_initialised c) (add_sub (c_subs c) s) (c_hb_started c) (c_uses_poll c)
    | UnsubAirTouch s =>
      mkClient (c_state c) (c_version c) (c_zones c) (c_acs c) (c_initialised c) (del_sub (c_subs c) s) (c_hb_started c) (c_uses_poll c)
    end.

  Fixpoint run_events (c : client) (es : list event) : client * list out :=
    match es with
    | [] => (c, [])
    | e :: r => let '(c1, o1) := on_event c e in let '(c2, o2) := run_events c1 r in (c2, o1 ++ o2)
    end.
End Core.
