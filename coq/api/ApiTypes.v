(* ApiTypes.v — the enumerations and small types of the public API (pyairtouch/api.py),
   retry policies of comms/socket.py, and exact rounding of float arguments. *)
From Coq Require Import NArith ZArith List Bool.
Import ListNotations.

Inductive p_ac_power := PA_Off | PA_On | PA_OffAway | PA_OnAway | PA_Sleep.
Inductive p_power_ctl := PC_Toggle | PC_Off | PC_On | PC_Away | PC_Sleep.
Inductive p_mode := PM_Auto | PM_Heat | PM_Dry | PM_Fan | PM_Cool.
Inductive p_fan := PF_Auto | PF_Quiet | PF_Low | PF_Medium | PF_High | PF_Powerful | PF_Turbo | PF_IntelligentAuto.
Inductive p_spill := PS_None | PS_Spill | PS_Bypass.
Inductive p_timer := PT_Off | PT_On.
Inductive p_zpower := PZ_Off | PZ_On | PZ_Turbo.
Inductive p_zmethod := PZM_Damper | PZM_Temperature.
Inductive p_battery := PB_Normal | PB_Low.

(* position in the Python enum (auto() value - 1): the exchange format with the harness *)
Definition p_ac_power_ix (x : p_ac_power) : Z :=
  match x with PA_Off => 0 | PA_On => 1 | PA_OffAway => 2 | PA_OnAway => 3 | PA_Sleep => 4 end.
Definition p_power_ctl_ix (x : p_power_ctl) : Z :=
  match x with PC_Toggle => 0 | PC_Off => 1 | PC_On => 2 | PC_Away => 3 | PC_Sleep => 4 end.
Definition p_power_ctl_of (z : Z) : option p_power_ctl :=
  match z with 0 => Some PC_Toggle | 1 => Some PC_Off | 2 => Some PC_On | 3 => Some PC_Away | 4 => Some PC_Sleep | _ => None end%Z.
Definition p_mode_ix (x : p_mode) : Z :=
  match x with PM_Auto => 0 | PM_Heat => 1 | PM_Dry => 2 | PM_Fan => 3 | PM_Cool => 4 end.
Definition p_mode_of (z : Z) : option p_mode :=
  match z with 0 => Some PM_Auto | 1 => Some PM_Heat | 2 => Some PM_Dry | 3 => Some PM_Fan | 4 => Some PM_Cool | _ => None end%Z.
Definition p_fan_ix (x : p_fan) : Z :=
  match x with PF_Auto => 0 | PF_Quiet => 1 | PF_Low => 2 | PF_Medium => 3 | PF_High => 4 | PF_Powerful => 5
             | PF_Turbo => 6 | PF_IntelligentAuto => 7 end.
Definition p_fan_of (z : Z) : option p_fan :=
  match z with 0 => Some PF_Auto | 1 => Some PF_Quiet | 2 => Some PF_Low | 3 => Some PF_Medium | 4 => Some PF_High
             | 5 => Some PF_Powerful | 6 => Some PF_Turbo | 7 => Some PF_IntelligentAuto | _ => None end%Z.
Definition p_spill_ix (x : p_spill) : Z := match x with PS_None => 0 | PS_Spill => 1 | PS_Bypass => 2 end.
Definition p_timer_ix (x : p_timer) : Z := match x with PT_Off => 0 | PT_On => 1 end.
Definition p_timer_of (z : Z) : option p_timer := match z with 0 => Some PT_Off | 1 => Some PT_On | _ => None end%Z.
Definition p_zpower_ix (x : p_zpower) : Z := match x with PZ_Off => 0 | PZ_On => 1 | PZ_Turbo => 2 end.
Definition p_zpower_of (z : Z) : option p_zpower :=
  match z with 0 => Some PZ_Off | 1 => Some PZ_On | 2 => Some PZ_Turbo | _ => None end%Z.
Definition p_zmethod_ix (x : p_zmethod) : Z := match x with PZM_Damper => 0 | PZM_Temperature => 1 end.
Definition p_battery_ix (x : p_battery) : Z := match x with PB_Normal => 0 | PB_Low => 1 end.

(* comms/socket.py: RETRY_IDEMPOTENT (2 retries, 30 s), RETRY_NON_IDEMPOTENT (0, 30 s),
   RETRY_CONNECTED (0, 1 s) *)
Inductive policy := P_Idempotent | P_NonIdempotent | P_Connected.
Definition policy_ix (p : policy) : Z := match p with P_Idempotent => 0 | P_NonIdempotent => 1 | P_Connected => 2 end.
Definition max_retries (p : policy) : nat := match p with P_Idempotent => 2 | _ => 0 end.

(* outcome of a public control call *)
Inductive outcome (M : Type) :=
| Sent (m : M) (p : policy)     (* exactly one socket.send(m, p) *)
| Refused                        (* ValueError before anything is sent *)
| Unsendable.                    (* accepted, but the value cannot be put into a message (the
                                    encoder raises at transmission time; nothing is written) *)
Arguments Sent {M} m p. Arguments Refused {M}. Arguments Unsendable {M}.

(* ------------------------------------------------------------ exact rounding *)
(* A finite Python float is m * 2^e exactly.  round(x) and round(x, 1) round the EXACT
   value half-to-even (CPython rounds the correctly rounded decimal expansion). *)
Open Scope Z_scope.
Definition rhe_div (n d : Z) : Z :=         (* round-half-even of n/d, d > 0 *)
  let q := n / d in let r := n mod d in
  if 2 * r <? d then q else if d <? 2 * r then q + 1 else if Z.even q then q else q + 1.

(* rhe(m * 2^e * scale) *)
Definition dy_round (m e scale : Z) : Z :=
  if 0 <=? e then m * 2 ^ e * scale else rhe_div (m * scale) (2 ^ (- e)).

Definition round0 (m e : Z) : Z := dy_round m e 1.       (* round(x): degrees *)
Definition round1 (m e : Z) : Z := dy_round m e 10.      (* round(x, 1): tenths of a degree *)

Definition clip (lo hi v : Z) : Z := Z.min (Z.max lo v) hi.    (* min(max(lo, v), hi) *)
