(* LifeProofs.v — shutdown() and a later init() on the generic client core (Core.v), for any record
   types: shutdown empties the model; whatever happens afterwards does not depend on what the client
   held before, except for the remembered console version and the AirTouch-level subscriber set
   (which only decide AirTouch-level notifications).  C15, API half. *)
From Coq Require Import NArith ZArith List Bool Lia Arith.
From PV Require Import api.Core.
Import ListNotations.
Open Scope N_scope.

Section P.
  Variables ZS AS AB TD : Type.
  Variable zs_id : ZS -> N.
  Variable as_id : AS -> N.
  Variable ab_id : AB -> N.
  Variable td_id : TD -> N.
  Variable zs_eqb : ZS -> ZS -> bool.
  Variable as_eqb : AS -> AS -> bool.
  Variable td_eqb : TD -> TD -> bool.
  Variable as_has_error : AS -> bool.
  Variable zs_init : N -> ZS.
  Variable as_init : N -> AS.
  Variable td_init : N -> TD.
  Variable assign : list AB -> list N -> AB -> option (list N).

  Notation client := (client ZS AS AB TD).
  Notation event := (event ZS AS AB TD).
  Notation out := (@out).
  Notation on_event := (on_event ZS AS AB TD zs_id as_id ab_id td_id zs_eqb as_eqb td_eqb as_has_error zs_init as_init td_init assign).
  Notation run_events := (run_events ZS AS AB TD zs_id as_id ab_id td_id zs_eqb as_eqb td_eqb as_has_error zs_init as_init td_init assign).
  Notation proc_ac_status := (proc_ac_status ZS AS AB TD as_id as_eqb as_has_error).
  Notation proc_zone_status := (proc_zone_status ZS AS AB TD zs_id zs_eqb).
  Notation proc_timer := (proc_timer ZS AS AB TD td_id td_eqb).
  Notation proc_names := (proc_names ZS AS AB TD zs_init).
  Notation with_acs := (with_acs ZS AS AB TD).
  Notation set_state := (set_state ZS AS AB TD).
  Notation finish_init := (finish_init ZS AS AB TD).
  Notation on_shutdown := (on_shutdown ZS AS AB TD).
  Notation on_init := (on_init ZS AS AB TD).
  Notation on_connected := (on_connected ZS AS AB TD).
  Notation empty := (empty ZS AS AB TD).

  (* the part of a client that is rebuilt by a handshake: everything but the remembered console
     version and the AirTouch-level subscribers *)
  Definition strip (c : client) : client :=
    mkClient _ _ _ _ (c_state _ _ _ _ c) (false, []) (c_zones _ _ _ _ c) (c_acs _ _ _ _ c)
             (c_initialised _ _ _ _ c) [] (c_hb_started _ _ _ _ c) (c_uses_poll _ _ _ _ c).

  (* outputs other than AirTouch-level notifications *)
  Definition model_out (o : out) : bool := match o with ONotifyAirTouch _ => false | _ => true end.
  Definition model_outs (l : list out) : list out := filter model_out l.

  Lemma model_outs_app a b : model_outs (a ++ b) = model_outs a ++ model_outs b.
  Proof. apply filter_app. Qed.

  Lemma model_outs_notify l : model_outs (map ONotifyAirTouch l) = [].
  Proof. induction l as [|x l IH]; [reflexivity|exact IH]. Qed.

  (* ------------------------------------------------------------ the record processors *)
  Lemma strip_proc_ac_status l : forall c,
    strip (fst (proc_ac_status c l)) = strip (fst (proc_ac_status (strip c) l)) /\
    snd (proc_ac_status c l) = snd (proc_ac_status (strip c) l).
  Proof.
    induction l as [|s r IH]; intros c; [split; reflexivity|].
    cbn [Core.proc_ac_status]. change (c_acs _ _ _ _ (strip c)) with (c_acs _ _ _ _ c).
    destruct (find_ac _ _ _ (c_acs _ _ _ _ c) (as_id s)) as [a|]; [|apply IH].
    destruct (update_ac_status _ _ _ as_eqb as_has_error a s) as [a' o1].
    specialize (IH (with_acs c (set_ac _ _ _ (c_acs _ _ _ _ c) a'))).
    change (with_acs (strip c) (set_ac _ _ _ (c_acs _ _ _ _ c) a')) with (strip (with_acs c (set_ac _ _ _ (c_acs _ _ _ _ c) a'))).
    destruct (proc_ac_status (with_acs c _) r) as [c2 o2].
    destruct (proc_ac_status (strip (with_acs c _)) r) as [c2' o2'].
    cbn [fst snd] in *. destruct IH as [IH1 IH2]. split; [exact IH1|now rewrite IH2].
  Qed.

  Lemma strip_proc_timer l : forall c,
    strip (fst (proc_timer c l)) = strip (fst (proc_timer (strip c) l)) /\
    snd (proc_timer c l) = snd (proc_timer (strip c) l).
  Proof.
    induction l as [|s r IH]; intros c; [split; reflexivity|].
    cbn [Core.proc_timer]. change (c_acs _ _ _ _ (strip c)) with (c_acs _ _ _ _ c).
    destruct (find_ac _ _ _ (c_acs _ _ _ _ c) (td_id s)) as [a|]; [|apply IH].
    destruct (update_ac_timer _ _ _ td_eqb a s) as [a' o1].
    specialize (IH (with_acs c (set_ac _ _ _ (c_acs _ _ _ _ c) a'))).
    change (with_acs (strip c) (set_ac _ _ _ (c_acs _ _ _ _ c) a')) with (strip (with_acs c (set_ac _ _ _ (c_acs _ _ _ _ c) a'))).
    destruct (proc_timer (with_acs c _) r) as [c2 o2].
    destruct (proc_timer (strip (with_acs c _)) r) as [c2' o2'].
    cbn [fst snd] in *. destruct IH as [IH1 IH2]. split; [exact IH1|now rewrite IH2].
  Qed.

  Definition with_zones (c : client) (zs : list (zone ZS)) : client :=
    mkClient _ _ _ _ (c_state _ _ _ _ c) (c_version _ _ _ _ c) zs (c_acs _ _ _ _ c) (c_initialised _ _ _ _ c)
             (c_subs _ _ _ _ c) (c_hb_started _ _ _ _ c) (c_uses_poll _ _ _ _ c).

  Lemma proc_zone_status_cons c s r :
    proc_zone_status c (s :: r) =
    match find_zone _ (c_zones _ _ _ _ c) (zs_id s) with
    | Some z => let '(z', o1) := update_zone _ _ _ _ zs_eqb (c_acs _ _ _ _ c) z s in
                let '(c2, o2) := proc_zone_status (with_zones c (set_zone _ (c_zones _ _ _ _ c) z')) r in (c2, o1 ++ o2)
    | None => proc_zone_status c r
    end.
  Proof. reflexivity. Qed.

  Lemma strip_proc_zone_status l : forall c,
    strip (fst (proc_zone_status c l)) = strip (fst (proc_zone_status (strip c) l)) /\
    snd (proc_zone_status c l) = snd (proc_zone_status (strip c) l).
  Proof.
    induction l as [|s r IH]; intros c; [split; reflexivity|].
    rewrite !proc_zone_status_cons.
    change (c_zones _ _ _ _ (strip c)) with (c_zones _ _ _ _ c). change (c_acs _ _ _ _ (strip c)) with (c_acs _ _ _ _ c).
    destruct (find_zone _ (c_zones _ _ _ _ c) (zs_id s)) as [z|]; [|apply IH].
    destruct (update_zone _ _ _ _ zs_eqb (c_acs _ _ _ _ c) z s) as [z' o1].
    specialize (IH (with_zones c (set_zone _ (c_zones _ _ _ _ c) z'))).
    change (with_zones (strip c) (set_zone _ (c_zones _ _ _ _ c) z')) with (strip (with_zones c (set_zone _ (c_zones _ _ _ _ c) z'))).
    destruct (proc_zone_status (with_zones c _) r) as [c2 o2].
    destruct (proc_zone_status (strip (with_zones c _)) r) as [c2' o2'].
    cbn [fst snd] in *. destruct IH as [IH1 IH2]. split; [exact IH1|now rewrite IH2].
  Qed.

  (* ------------------------------------------------------------ one event *)
  Lemma strip_on_event c e :
    strip (fst (on_event c e)) = strip (fst (on_event (strip c) e)) /\
    model_outs (snd (on_event c e)) = model_outs (snd (on_event (strip c) e)).
  Proof.
    unfold Core.on_event.
    change (c_state _ _ _ _ (strip c)) with (c_state _ _ _ _ c).
    destruct e as [u vs|l|b|l|l|l|l|b|ac info|]; destruct (c_state _ _ _ _ c) eqn:St; try (split; reflexivity).
    all: try (destruct b; split; reflexivity).
    (* error text, in any state *)
    all: try solve [change (c_acs _ _ _ _ (strip c)) with (c_acs _ _ _ _ c);
                    (destruct (find_ac _ _ _ (c_acs _ _ _ _ c) ac) as [a|]; [|split; reflexivity]);
                    destruct (update_ac_err _ _ _ a info) as [a' o]; split; reflexivity].
    - (* version while connected: only AirTouch-level notifications differ *)
      split; [reflexivity|]. cbn [snd].
      destruct (version_eqb _ _); destruct (version_eqb _ _); cbn [c_subs strip]; rewrite ?model_outs_notify; reflexivity.
    - (* ability *)
      change (c_zones _ _ _ _ (strip c)) with (c_zones _ _ _ _ c). change (c_acs _ _ _ _ (strip c)) with (c_acs _ _ _ _ c).
      match goal with |- context [let '(acs, ok) := ?p in _] => destruct p as [acs ok] end. destruct ok; split; reflexivity.
    - (* AC status during the handshake *)
      destruct (strip_proc_ac_status l c) as [H1 H2].
      destruct (proc_ac_status c l) as [c1 o]. destruct (proc_ac_status (strip c) l) as [c1' o'].
      cbn [fst snd] in *. subst o'. split; [|reflexivity].
      unfold strip in *. cbn in *. congruence.
    - (* AC status when connected *)
      destruct (strip_proc_ac_status l c) as [H1 H2]. now rewrite H2.
    - (* timer during the handshake *)
      destruct (strip_proc_timer l c) as [H1 H2].
      destruct (proc_timer c l) as [c1 o]. destruct (proc_timer (strip c) l) as [c1' o'].
      cbn [fst snd] in *. subst o'. split; [|reflexivity].
      unfold strip in *. cbn in *. congruence.
    - destruct (strip_proc_timer l c) as [H1 H2]. now rewrite H2.
    - (* zone status completing the handshake *)
      destruct (strip_proc_zone_status l c) as [H1 H2].
      destruct (proc_zone_status c l) as [c1 o]. destruct (proc_zone_status (strip c) l) as [c1' o'].
      cbn [fst snd] in *. subst o'.
      assert (c_uses_poll _ _ _ _ c1 = c_uses_poll _ _ _ _ c1') as Hp by (unfold strip in H1; cbn in H1; congruence).
      unfold Core.finish_init. cbn [fst snd]. rewrite Hp. split; [|reflexivity].
      unfold strip in *. cbn in *. congruence.
    - (* zone status when connected *)
      destruct (strip_proc_zone_status l c) as [H1 H2].
      destruct (proc_zone_status c l) as [c1 o]. destruct (proc_zone_status (strip c) l) as [c1' o'].
      cbn [fst snd] in *. subst o'. split; [exact H1|reflexivity].
  Qed.

  (* ------------------------------------------------------------ any sequence of events *)
  Lemma strip_run_events es : forall c,
    strip (fst (run_events c es)) = strip (fst (run_events (strip c) es)) /\
    model_outs (snd (run_events c es)) = model_outs (snd (run_events (strip c) es)).
  Proof.
    induction es as [|e r IH]; intros c; [split; reflexivity|].
    cbn [Core.run_events].
    destruct (strip_on_event c e) as [H1 H2].
    destruct (on_event c e) as [c1 o1]. destruct (on_event (strip c) e) as [c1' o1']. cbn [fst snd] in H1, H2.
    destruct (IH c1) as [A1 A2]. destruct (IH c1') as [B1 B2].
    destruct (run_events c1 r) as [c2 o2]. destruct (run_events c1' r) as [c2' o2'].
    cbn [fst snd] in *. rewrite !model_outs_app, H2.
    rewrite H1 in A1, A2.
    split; [congruence|]. f_equal. congruence.
  Qed.

  (* ------------------------------------------------------------ shutdown, then init again *)
  Lemma shutdown_empties (c : client) :
    c_state _ _ _ _ (on_shutdown c) = Closed /\ c_zones _ _ _ _ (on_shutdown c) = [] /\ c_acs _ _ _ _ (on_shutdown c) = [] /\
    c_initialised _ _ _ _ (on_shutdown c) = false /\ c_hb_started _ _ _ _ (on_shutdown c) = false.
  Proof. repeat split. Qed.

  (* whatever the client held, after shutdown() and init() it is - up to the remembered version and the
     AirTouch-level subscribers - a fresh object on which init() was called *)
  Lemma reinit_is_fresh (c : client) :
    strip (on_init (on_shutdown c)) = strip (on_init (empty (c_uses_poll _ _ _ _ c))).
  Proof. reflexivity. Qed.

  (* ... and stays so: the connected notification and any sequence of frames leave it with the same model,
     the same handshake state and the same requests / notifications / task starts as the fresh object *)
  Lemma reinit_like_fresh (c : client) es :
    let old := on_connected (on_init (on_shutdown c)) in
    let new := on_connected (on_init (empty (c_uses_poll _ _ _ _ c))) in
    snd old = snd new /\
    strip (fst (run_events (fst old) es)) = strip (fst (run_events (fst new) es)) /\
    model_outs (snd (run_events (fst old) es)) = model_outs (snd (run_events (fst new) es)).
  Proof.
    cbn zeta. split; [reflexivity|].
    destruct (strip_run_events es (fst (on_connected (on_init (on_shutdown c))))) as [A1 A2].
    destruct (strip_run_events es (fst (on_connected (on_init (empty (c_uses_poll _ _ _ _ c)))))) as [B1 B2].
    assert (strip (fst (on_connected (on_init (on_shutdown c)))) =
            strip (fst (on_connected (on_init (empty (c_uses_poll _ _ _ _ c)))))) as E by reflexivity.
    rewrite E in A1, A2. split; congruence.
  Qed.
End P.

