(* ClientProofs.v — the generic client-core facts (CoreProofs.v) for the AirTouch 4 and
   AirTouch 5 instantiations: dataclass equality is reflexive, zone-to-AC association. *)
From Coq Require Import NArith ZArith List Bool Lia Arith.
From PV Require Import base.Res stream.Stream at4.Msg4 at4.Codec4 at5.Msg5 at5.Codec5 api.ApiTypes api.Api4 api.Api5
  api.Core api.CoreProofs api.Client4 api.Client5.
Import ListNotations.
Open Scope N_scope.

Lemma optN_eqb_refl o : optN_eqb o o = true. Proof. destruct o; cbn; [apply N.eqb_refl|reflexivity]. Qed.
Lemma optZ_eqb_refl o : optZ_eqb o o = true. Proof. destruct o; cbn; [apply Z.eqb_refl|reflexivity]. Qed.

Lemma group_status_eqb_refl s : group_status_eqb s s = true.
Proof. unfold group_status_eqb. now rewrite !N.eqb_refl, !eqb_reflx, optN_eqb_refl, optZ_eqb_refl. Qed.
Lemma ac_status_eqb_refl s : ac_status_eqb s s = true.
Proof. unfold ac_status_eqb. now rewrite !N.eqb_refl, !eqb_reflx, Z.eqb_refl. Qed.
Lemma timer_data_eqb_refl s : timer_data_eqb s s = true.
Proof. unfold timer_data_eqb, timer_state_eqb. now rewrite !N.eqb_refl, !eqb_reflx. Qed.
Lemma zone_status_eqb_refl s : zone_status_eqb s s = true.
Proof. unfold zone_status_eqb. now rewrite !N.eqb_refl, !eqb_reflx, !optZ_eqb_refl. Qed.
Lemma ac5_status_eqb_refl s : ac5_status_eqb s s = true.
Proof. unfold ac5_status_eqb. now rewrite !N.eqb_refl, !eqb_reflx, !Z.eqb_refl. Qed.

(* dataclass equality separates records that differ in an exposed attribute: equal only if
   every field is equal *)
Lemma ac_status_eqb_eq a b : ac_status_eqb a b = true ->
  as_number a = as_number b /\ as_setpoint a = as_setpoint b /\ as_temp a = as_temp b /\ as_error a = as_error b /\
  as_spill a = as_spill b /\ as_timer a = as_timer b.
Proof.
  unfold ac_status_eqb. intros H. repeat (apply andb_prop in H as [H ?]).
  repeat match goal with
         | X : (_ =? _) = true |- _ => apply N.eqb_eq in X
         | X : (_ =? _)%Z = true |- _ => apply Z.eqb_eq in X
         | X : Bool.eqb _ _ = true |- _ => apply eqb_prop in X
         end. repeat split; assumption.
Qed.

(* ---- zone-to-AC association (AirTouch 4): the group display bitmap when the ability record
   carries one; every zone when the console describes a single AC; start .. start+count-1
   otherwise *)
Lemma assign4_bitmap all ids ab gs : ab_groups ab = Some gs -> forallb (known ids) gs = true -> assign4 all ids ab = Some gs.
Proof. intros H K. unfold assign4. now rewrite H, K. Qed.
Lemma assign4_single ids ab : ab_groups ab = None -> assign4 [ab] ids ab = Some ids.
Proof. intros H. unfold assign4. now rewrite H. Qed.
Lemma assign4_range all ids ab : ab_groups ab = None -> length all <> 1%nat ->
  forallb (known ids) (range_from (ab_start ab) (ab_count ab)) = true ->
  assign4 all ids ab = Some (range_from (ab_start ab) (ab_count ab)).
Proof.
  intros H L K. unfold assign4. rewrite H. assert (Nat.eqb (length all) 1 = false) as -> by (now apply Nat.eqb_neq).
  now rewrite K.
Qed.
Lemma assign5_range all ids ab : forallb (known ids) (range_from (ab5_start ab) (ab5_count ab)) = true ->
  assign5 all ids ab = Some (range_from (ab5_start ab) (ab5_count ab)).
Proof. intros K. unfold assign5. now rewrite K. Qed.
(* a zone number the console never named: the ability message is not accepted (KeyError) *)
Lemma assign5_unknown all ids ab : forallb (known ids) (range_from (ab5_start ab) (ab5_count ab)) = false ->
  assign5 all ids ab = None.
Proof. intros K. unfold assign5. now rewrite K. Qed.
