(* PollProofs.v — the AT4 group-status poll: fires after every full period of silence while
   connected, again and again; never fires while group statuses keep arriving in time. *)
From Coq Require Import ZArith List Bool Lia.
From PV Require Import api.Poll.
Import ListNotations.
Open Scope Z_scope.

Definition requests (l : list pev) : list Z :=
  concat (map (fun e => match e with PRequest t => [t] | PTime _ => [] end) l).

Lemma requests_app a b : requests (a ++ b) = requests a ++ requests b.
Proof. unfold requests. now rewrite map_app, concat_app. Qed.

(* the deadline passes while connected: a request exactly at the deadline, and the next
   deadline one period later *)
Lemma poll_fires P s dt : p_run s = true -> p_dead s <= p_now s + dt ->
  pstep P s (PAdv dt true) = (mkP true (p_dead s + P) (p_dead s), [PRequest (p_dead s); PTime (p_dead s)]).
Proof. intros Hr Hd. unfold pstep. rewrite Hr. cbn [negb]. apply Z.leb_le in Hd. now rewrite Hd. Qed.

(* silence for as long as it lasts: k passages of the deadline give requests at
   d, d + P, ..., d + (k-1) P *)
Fixpoint silent_advances (k : nat) (big : Z) : list pop :=
  match k with O => [] | S k' => PAdv big true :: silent_advances k' big end.
Fixpoint arith (k : nat) (d P : Z) : list Z := match k with O => [] | S k' => d :: arith k' (d + P) P end.

Lemma poll_repeats P : 0 < P -> forall k s big, p_run s = true -> p_now s <= p_dead s -> P <= big ->
  p_dead s <= p_now s + big ->
  requests (snd (prun P s (silent_advances k big))) = arith k (p_dead s) P.
Proof.
  intros HP. induction k as [|k IH]; intros s big Hr Hn Hb Hd; [reflexivity|].
  cbn [silent_advances prun]. rewrite (poll_fires P s big Hr Hd).
  destruct (prun P _ (silent_advances k big)) as [s2 e2] eqn:R. cbn [snd].
  change ([PRequest (p_dead s); PTime (p_dead s)] ++ e2) with ([PRequest (p_dead s)] ++ [PTime (p_dead s)] ++ e2).
  rewrite !requests_app. cbn [requests map concat app arith]. f_equal.
  specialize (IH (mkP true (p_dead s + P) (p_dead s)) big eq_refl). cbn [p_now p_dead] in IH.
  rewrite R in IH. cbn [snd] in IH. apply IH; lia.
Qed.

(* a group status re-arms the deadline one period from now *)
Lemma poll_seen P s : p_run s = true -> pstep P s PSeen = (mkP true (p_now s + P) (p_now s), []).
Proof. intros Hr. unfold pstep. now rewrite Hr. Qed.

(* as long as time never reaches the deadline (group statuses keep re-arming it), nothing
   is requested *)
Definition stays_early (s : pstate) (o : pop) : Prop :=
  match o with PAdv dt _ => p_now s + dt < p_dead s | _ => True end.

Fixpoint early (P : Z) (s : pstate) (ops : list pop) : Prop :=
  match ops with
  | [] => True
  | o :: r => stays_early s o /\ early P (fst (pstep P s o)) r
  end.

Lemma poll_quiet P : forall ops s, early P s ops -> requests (snd (prun P s ops)) = [].
Proof.
  induction ops as [|o ops IH]; intros s H; [reflexivity|].
  destruct H as [He Hr]. cbn [prun]. destruct (pstep P s o) as [s1 e1] eqn:E. cbn [fst] in Hr.
  destruct (prun P s1 ops) as [s2 e2] eqn:R. cbn [snd]. rewrite requests_app.
  specialize (IH s1 Hr). rewrite R in IH. cbn [snd] in IH. rewrite IH, app_nil_r.
  destruct o as [| | |dt c]; unfold pstep in E.
  - injection E as <- <-. reflexivity.
  - injection E as <- <-. reflexivity.
  - destruct (p_run s); injection E as <- <-; reflexivity.
  - cbn [stays_early] in He. destruct (negb (p_run s)); [injection E as <- <-; reflexivity|].
    assert (p_dead s <=? p_now s + dt = false) as Hf by (apply Z.leb_gt; lia). rewrite Hf in E.
    injection E as <- <-. reflexivity.
Qed.

(* a disconnected client does not poll, but the deadline is still re-armed *)
Lemma poll_disconnected P s dt : p_run s = true -> p_dead s <= p_now s + dt ->
  requests (snd (pstep P s (PAdv dt false))) = [] /\ p_dead (fst (pstep P s (PAdv dt false))) = p_dead s + P.
Proof. intros Hr Hd. unfold pstep. rewrite Hr. cbn [negb]. apply Z.leb_le in Hd. rewrite Hd. split; reflexivity. Qed.
