(* Client5.v — the AirTouch 5 client: Core.v instantiated with the AT5 record types, the
   classification of received messages (AirTouch5._message_received, including the echoed
   requests a console without zones sends), the zone-to-AC association and dataclass
   equality.  No proofs here. *)
From Coq Require Import NArith ZArith List Bool.
From PV Require Import base.Res stream.Stream at4.Msg4 at4.Codec4 at5.Msg5 at5.Codec5 api.ApiTypes api.Api4 api.Api5
  api.Core api.Client4.
Import ListNotations.
Open Scope N_scope.

Definition zone_status_eqb (a b : zone_status) : bool :=
  (zs_zone a =? zs_zone b) && (zpower_code (zs_power a) =? zpower_code (zs_power b)) && Bool.eqb (zs_spill a) (zs_spill b) &&
  (zmethod_code (zs_method a) =? zmethod_code (zs_method b)) && Bool.eqb (zs_sensor a) (zs_sensor b) &&
  (battery_code (zs_battery a) =? battery_code (zs_battery b)) && optZ_eqb (zs_temp a) (zs_temp b) &&
  (zs_damper a =? zs_damper b) && optZ_eqb (zs_setpoint a) (zs_setpoint b).
Definition ac5_status_eqb (a b : ac5_status) : bool :=
  (a5s_number a =? a5s_number b) && (a5power_code (a5s_power a) =? a5power_code (a5s_power b)) &&
  (amode_code (a5s_mode a) =? amode_code (a5s_mode b)) && (a5fan_code (a5s_fan a) =? a5fan_code (a5s_fan b)) &&
  Bool.eqb (a5s_turbo a) (a5s_turbo b) && Bool.eqb (a5s_bypass a) (a5s_bypass b) && Bool.eqb (a5s_spill a) (a5s_spill b) &&
  Bool.eqb (a5s_timer a) (a5s_timer b) && (a5s_setpoint a =? a5s_setpoint b)%Z && (a5s_temp a =? a5s_temp b)%Z &&
  (a5s_error a =? a5s_error b).

Definition zone_status_init (z : N) : zone_status :=
  mkZS z ZPS_Off false ZMS_Damper false Bat_Normal (Some 0%Z) 0 None.
Definition ac5_status_init (n : N) : ac5_status := mkA5S n A5S_Off AMS_Auto A5FS_Auto false false false false 0%Z 0%Z 0.

(* zones start_zone .. start_zone + zone_count - 1; a zone without a name is a KeyError *)
Definition assign5 (all : list ability5) (zone_ids : list N) (ab : ability5) : option (list N) :=
  let r := range_from (ab5_start ab) (ab5_count ab) in
  if forallb (known zone_ids) r then Some r else None.

Definition client5 := client zone_status ac5_status ability5 timer_data.
Definition event5 := event zone_status ac5_status ability5 timer_data.

Definition ADDRESS_CLIENT : N := 0xB0.

Definition event_of5 (h : hdr) (m : msg5) : event5 :=
  match m with
  | M5_Ext (S5_Version u vs) => EvVersion _ _ _ _ u vs
  | M5_Ext (S5_Names l) => EvNames _ _ _ _ l
  | M5_Ext (S5_NamesReq _) => EvNamesEcho _ _ _ _ (h_to h =? ADDRESS_CLIENT)
  | M5_Ext (S5_Ability l) => EvAbility _ _ _ _ l
  | M5_Ctl (C_AcStatus l) => EvAcStatus _ _ _ _ l
  | M5_Ctl (C_TimerStatus l) => EvTimer _ _ _ _ l
  | M5_Ctl (C_ZoneStatus l) => EvZoneStatus _ _ _ _ l
  | M5_Ctl C_ZoneStatusReq => EvZoneStatusEcho _ _ _ _ (h_to h =? ADDRESS_CLIENT)
  | M5_Ext (S5_ErrMsg ac info) => EvErrInfo _ _ _ _ ac info
  | _ => EvOther _ _ _ _
  end.

Definition on_event5 : client5 -> event5 -> client5 * list out :=
  on_event _ _ _ _ zs_zone a5s_number ab5_number td_number zone_status_eqb ac5_status_eqb timer_data_eqb
           (fun s => negb (a5s_error s =? 0)) zone_status_init ac5_status_init timer_init assign5.
Definition on_message5 (c : client5) (h : hdr) (m : msg5) : client5 * list out := on_event5 c (event_of5 h m).
Definition empty5 : client5 := empty _ _ _ _ false.

Definition to_ac5 (a : aircon ac5_status ability5 timer_data) : ac5 := mkAc5 (a_ability _ _ _ a) (a_status _ _ _ a) (a_timer _ _ _ a) (a_err _ _ _ a).
Definition to_zone5 (z : zone zone_status) : zone5 := mkZone5 (z_name _ z) (z_status _ z).
